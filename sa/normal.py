"""Normal form of a function for the syntactic rules (DESIGN §12).

Behaviour-preserving refactorings a maintainer makes — extracting a private helper, looping over a literal table,
`setattr(obj, "name", v)` for `obj.name = v`, naming an intermediate result, a guard clause for an if/else — change the
*shape* a syntactic rule looks for and nothing else.  `normalise` rewrites a copy of the function towards one shape:

  1. calls of private helpers are inlined: a module-level function or a method of the same class whose name starts with
     `_`, with one definition, not recursive, whose body is straight-line code ending in at most one `return`; a helper that
     is a single `return <expr>` is substituted inside expressions, any other one at statement level
     (`x = self._h(a)`, `self._h(a)`, `return self._h(a)`); parameters are substituted when the argument is a plain name /
     attribute / constant, otherwise bound to a fresh local; the helper's own locals are renamed apart
  2. `for k, v in TABLE.items(): body` / `for x in (A, B, C): body` over a literal table is unrolled (tables of at most 12
     entries, bodies without break / continue)
  3. `setattr(o, "name", v)` -> `o.name = v`, `getattr(o, "name")` -> `o.name`
  4. optional (`subst=True`): a local assigned exactly once from an expression and never re-bound is substituted into its
     uses (`boundaries = pd.concat(..); d = boundaries.sort_values()` -> one chain)
  5. optional (`guards=True`): `if c: A...; return X` followed by more statements becomes `if c: A...; return X  else: rest`

Nothing is executed; line numbers of inlined statements stay those of the helper, so reports point at the real construct.
Steps 1–3 are iterated to a fixpoint (bounded).  A helper that does not fit is left as a call (the rule then sees less and
must answer "undecided", never "violation", for what it cannot see).
"""
from __future__ import annotations

import ast
import copy
import itertools
from typing import Dict, List, Optional

_counter = itertools.count()


def _is_private(name: str) -> bool:
    return name.startswith("_") and not (name.startswith("__") and name.endswith("__"))


def _body_wo_doc(fn: ast.FunctionDef) -> List[ast.stmt]:
    b = list(fn.body)
    if b and isinstance(b[0], ast.Expr) and isinstance(b[0].value, ast.Constant) and isinstance(b[0].value.value, str):
        b = b[1:]
    # `if c: return A` + `return B` (the statement form the model gives `return A if c else B`) is that one expression again: a helper
    # that is a single conditional expression is expanded in place like any other expression helper
    if len(b) == 2 and isinstance(b[0], ast.If) and not b[0].orelse and len(b[0].body) == 1 and isinstance(b[0].body[0], ast.Return) and \
            b[0].body[0].value is not None and isinstance(b[1], ast.Return) and b[1].value is not None:
        b = [ast.copy_location(ast.Return(value=ast.copy_location(ast.IfExp(test=b[0].test, body=b[0].body[0].value, orelse=b[1].value), b[0])), b[0])]
    return b


def _simple_helper(fn: ast.FunctionDef) -> Optional[str]:
    """'expr' (single return), 'stmts' (straight-line, at most one trailing return), or None"""
    if fn.args.vararg or fn.args.kwarg or fn.decorator_list and any(
            ast.unparse(d).split(".")[-1] not in ("staticmethod", "classmethod") for d in fn.decorator_list):
        return None
    b = _body_wo_doc(fn)
    if not b:
        return None
    for n in ast.walk(fn):
        if isinstance(n, (ast.Yield, ast.YieldFrom, ast.Global, ast.Nonlocal, ast.Await)):
            return None
        if isinstance(n, (ast.FunctionDef, ast.AsyncFunctionDef, ast.Lambda)) and n is not fn:
            # nested closures capture helper locals; keep it simple
            if not isinstance(n, ast.Lambda):
                return None
    rets = [n for n in ast.walk(fn) if isinstance(n, ast.Return)]
    if len(b) == 1 and isinstance(b[0], ast.Return) and b[0].value is not None:
        return "expr"
    if len(rets) == 0:
        return "stmts"
    if len(rets) == 1 and b[-1] is rets[0]:
        return "stmts"
    # guard-clause form: every return is in tail position once `if c: return X` + rest is read as if/else
    b2 = _guards_to_else(copy.deepcopy(b))
    n_tail = _tail_returns(b2)
    if n_tail is not None and n_tail == len(rets) and len(rets) <= 8:
        return "tail"
    return None


def _tail_returns(stmts) -> Optional[int]:
    """number of returns when every path through stmts ends in a `return` in tail position (and no other return), else None"""
    if not stmts:
        return None
    for st in stmts[:-1]:
        if any(isinstance(n, ast.Return) for n in ast.walk(st)):
            return None
    last = stmts[-1]
    if isinstance(last, ast.Return):
        return 1
    if isinstance(last, ast.If) and last.orelse and not any(isinstance(n, ast.Return) for n in ast.walk(last.test)):
        a, b = _tail_returns(last.body), _tail_returns(last.orelse)
        return None if a is None or b is None else a + b
    return None


def _replace_tail(stmts, make) -> None:
    last = stmts[-1]
    if isinstance(last, ast.Return):
        new = make(last.value if last.value is not None else ast.Constant(value=None), last)
        stmts[-1:] = new
    elif isinstance(last, ast.If):
        _replace_tail(last.body, make)
        _replace_tail(last.orelse, make)


class _Rename(ast.NodeTransformer):
    def __init__(self, mapping: Dict[str, ast.AST]):
        self.mapping = mapping

    def visit_Name(self, n):
        if n.id in self.mapping:
            r = copy.deepcopy(self.mapping[n.id])
            if isinstance(r, ast.Name):
                r.ctx = n.ctx
            return ast.copy_location(r, n)
        return n


def _locals_of(fn: ast.FunctionDef) -> set:
    out = set()
    for n in ast.walk(fn):
        if isinstance(n, ast.Name) and isinstance(n.ctx, (ast.Store, ast.Del)):
            out.add(n.id)
        if isinstance(n, ast.arg):
            out.add(n.arg)
    return out


def _resolve_helper(M, fn, call: ast.Call):
    """the helper Fn a call denotes, or None"""
    f = call.func
    name = None
    q = None
    if isinstance(f, ast.Name) and _is_private(f.id):
        r = M.resolve(fn.mod, f.id)
        if r and r[0] == "func":
            q = r[1] if isinstance(r[1], str) else getattr(r[1], "qual", None)
    elif isinstance(f, ast.Attribute) and _is_private(f.attr) and isinstance(f.value, ast.Name):
        if f.value.id in ("self", "cls") and fn.cls:
            q = M.method(fn.cls, f.attr)
        else:
            r = M.resolve(fn.mod, f.value.id)
            if r and r[0] == "class":
                c = r[1] if isinstance(r[1], str) else getattr(r[1], "qual", None)
                q = M.method(c, f.attr) if c else None
    if q is None or q not in M.funcs or q == fn.qual:
        return None
    h = M.funcs[q]
    if isinstance(f, ast.Attribute) and f.value.id in ("self", "cls") and h.cls:
        # dynamic dispatch: the base-class body is what runs only when no subclass (and no class decorator, which stores
        # generated functions under the same name) provides its own
        for g in M.funcs.values():
            if g is not h and g.node.name == f.attr and (("<locals>" in g.qual) or (g.cls and g.cls != h.cls and h.cls in M.mro(g.cls))):
                return None
    if h.mod != fn.mod:
        # another module only for a helper of a class in the caller's own hierarchy (a shared base-class helper)
        if not (fn.cls and h.cls and h.cls in M.mro(fn.cls)):
            return None
    return h


def _bind(helper, call: ast.Call, pre: List[ast.stmt], dead=None) -> Optional[Dict[str, ast.AST]]:
    """parameter -> expression; complex arguments are bound to fresh locals appended to `pre`"""
    a = helper.node.args
    params = [x.arg for x in a.posonlyargs + a.args]
    static = any(ast.unparse(d).split(".")[-1] == "staticmethod" for d in helper.node.decorator_list)
    mapping: Dict[str, ast.AST] = {}
    recv = None
    if isinstance(call.func, ast.Attribute) and helper.cls and not static and params:
        recv = call.func.value
        mapping[params[0]] = recv
        params = params[1:]
    elif isinstance(call.func, ast.Name) and helper.cls is None:
        pass
    elif isinstance(call.func, ast.Attribute) and static:
        pass
    defaults = dict(zip([x.arg for x in (a.posonlyargs + a.args)][::-1], a.defaults[::-1]))
    vals: Dict[str, ast.AST] = {}
    if len(call.args) > len(params) or any(isinstance(x, ast.Starred) for x in call.args):
        return None
    for p, v in zip(params, call.args):
        vals[p] = v
    for k in call.keywords:
        if k.arg is None or k.arg not in params and k.arg not in [x.arg for x in a.kwonlyargs]:
            return None
        vals[k.arg] = k.value
    for x, d in zip(a.kwonlyargs, a.kw_defaults):
        if x.arg not in vals and d is not None:
            vals[x.arg] = d
    for p in params:
        if p not in vals:
            if p in defaults:
                vals[p] = defaults[p]
            else:
                return None
    assigned = {n.id for n in ast.walk(helper.node) if isinstance(n, ast.Name) and isinstance(n.ctx, ast.Store)}
    for p, v in vals.items():
        simple = isinstance(v, (ast.Name, ast.Constant)) or (isinstance(v, ast.Attribute) and isinstance(v.value, ast.Name)) or \
            (isinstance(v, (ast.List, ast.Tuple)) and all(isinstance(x, ast.Constant) for x in v.elts))
        if simple and p not in assigned:
            mapping[p] = v
        elif isinstance(v, ast.Name) and dead is not None and v.id in dead:
            mapping[p] = v            # the helper re-binds its parameter; the caller's name is dead after the call: reuse it
        else:
            tmp = f"__{helper.node.name.strip('_')}_{p}_{next(_counter)}"
            pre.append(ast.copy_location(ast.Assign(targets=[ast.Name(id=tmp, ctx=ast.Store())], value=copy.deepcopy(v)), call))
            mapping[p] = ast.Name(id=tmp, ctx=ast.Load())
    return mapping


def _instantiate(helper, mapping: Dict[str, ast.AST], caller_locals: set):
    """(statements, return expression) of the helper body with parameters substituted and locals renamed apart"""
    body = copy.deepcopy(_body_wo_doc(helper.node))
    own = _locals_of(helper.node) - set(x.arg for x in helper.node.args.posonlyargs + helper.node.args.args + helper.node.args.kwonlyargs)
    ren = dict(mapping)
    for v in own:
        if v in caller_locals or v in mapping:
            ren[v] = ast.Name(id=f"{v}__{helper.node.name.strip('_')}{next(_counter)}", ctx=ast.Load())
    body = [_Rename(ren).visit(s) for s in body]
    ret = None
    if body and isinstance(body[-1], ast.Return):
        ret = body[-1].value
        body = body[:-1]
    return body, ret


class _ExprInliner(ast.NodeTransformer):
    """substitute calls of single-return helpers inside expressions"""

    def __init__(self, M, fn, pre, changed):
        self.M, self.fn, self.pre, self.changed = M, fn, pre, changed

    def visit_Call(self, n):
        n = self.generic_visit(n)
        h = _resolve_helper(self.M, self.fn, n)
        if h is not None and _simple_helper(h.node) == "expr":
            mp = _bind(h, n, self.pre)
            if mp is not None:
                body, ret = _instantiate(h, mp, set())
                if not body and ret is not None:
                    self.changed.append(h.qual)
                    return ast.copy_location(ret, ret) if hasattr(ret, "lineno") else ast.copy_location(ret, n)
        return n

    def visit_FunctionDef(self, n):
        return n        # do not descend into nested definitions

    visit_Lambda = visit_FunctionDef


def _comp_with_helper_to_loop(M, fn, st: ast.stmt) -> Optional[List[ast.stmt]]:
    """name = [f(x) for x in S (if c)] where f is a multi-statement private helper  ->  name = []; for x in S: (if c:) name.append(f(x))
    (the helper is then inlined into the loop body by the next round)"""
    is_ret = isinstance(st, ast.Return) and isinstance(st.value, ast.ListComp)
    if not ((isinstance(st, ast.Assign) and len(st.targets) == 1 and isinstance(st.targets[0], ast.Name) and isinstance(st.value, ast.ListComp)) or is_ret) \
            or len(st.value.generators) != 1 or st.value.generators[0].is_async:
        return None
    lc = st.value
    name = f"__ret{next(_counter)}" if is_ret else st.targets[0].id
    if any(isinstance(n, ast.Name) and n.id == name for n in ast.walk(lc)):
        return None
    hs = [c for c in ast.walk(lc.elt) if isinstance(c, ast.Call) and _resolve_helper(M, fn, c) is not None and
          _simple_helper(_resolve_helper(M, fn, c).node) in ("stmts", "tail")]
    if not hs:
        return None
    g = lc.generators[0]
    emit = ast.Expr(value=ast.Call(func=ast.Attribute(value=ast.Name(id=name, ctx=ast.Load()), attr="append", ctx=ast.Load()),
                                   args=[lc.elt], keywords=[]))
    body: List[ast.stmt] = [emit]
    if g.ifs:
        test = g.ifs[0] if len(g.ifs) == 1 else ast.BoolOp(op=ast.And(), values=list(g.ifs))
        body = [ast.If(test=test, body=[emit], orelse=[])]
    tgt = copy.deepcopy(g.target)
    for t in ast.walk(tgt):
        if isinstance(t, (ast.Name, ast.Tuple, ast.List)):
            t.ctx = ast.Store()
    loop = ast.For(target=tgt, iter=g.iter, body=body, orelse=[])
    init = ast.Assign(targets=[ast.Name(id=name, ctx=ast.Store())], value=ast.List(elts=[], ctx=ast.Load()))
    tail = [ast.Return(value=ast.Name(id=name, ctx=ast.Load()))] if is_ret else []
    return [ast.fix_missing_locations(ast.copy_location(x, st)) for x in [init, loop] + tail]


def _gen_helper_parts(h):
    """a generator helper of the shape  <simple statements>; for v in IT: <statements>; yield E   (one yield, last statement of
    the one top-level loop, nothing after the loop) -> (pre statements, the loop, the yielded expression) or None"""
    b = _body_wo_doc(h.node)
    if not b or not isinstance(b[-1], ast.For) or b[-1].orelse:
        return None
    lp = b[-1]
    ys = [n for n in ast.walk(h.node) if isinstance(n, (ast.Yield, ast.YieldFrom))]
    if len(ys) != 1 or not isinstance(ys[0], ast.Yield) or ys[0].value is None:
        return None
    last = lp.body[-1] if lp.body else None
    if not (isinstance(last, ast.Expr) and last.value is ys[0]):
        return None
    if any(isinstance(n, (ast.Return, ast.FunctionDef, ast.Lambda, ast.Global, ast.Nonlocal)) for n in ast.walk(h.node) if n is not h.node):
        return None
    if any(isinstance(x, (ast.For, ast.While, ast.With, ast.Try)) for x in b[:-1]):
        return None
    if h.node.args.vararg or h.node.args.kwarg:
        return None
    return b[:-1], lp, ys[0].value


def _inline_gen_loops(M, fn, stmts: List[ast.stmt], caller_locals: set, changed: List[str]) -> List[ast.stmt]:
    """for T in self._gen(args): BODY   ->   <pre>; for v in IT: <loop statements>; T = <yielded>; BODY"""
    out = []
    for st in stmts:
        for fld in ("body", "orelse", "finalbody"):
            if isinstance(getattr(st, fld, None), list) and not isinstance(st, (ast.FunctionDef, ast.AsyncFunctionDef, ast.ClassDef)):
                setattr(st, fld, _inline_gen_loops(M, fn, getattr(st, fld), caller_locals, changed))
        if isinstance(st, ast.For) and not st.orelse and isinstance(st.iter, ast.Call):
            h = _resolve_helper(M, fn, st.iter)
            parts = _gen_helper_parts(h) if h is not None else None
            if parts is not None:
                pre_bind: List[ast.stmt] = []
                mp = _bind(h, st.iter, pre_bind)
                if mp is not None:
                    own = _locals_of(h.node) - set(x.arg for x in h.node.args.posonlyargs + h.node.args.args + h.node.args.kwonlyargs)
                    ren = dict(mp)
                    for v in own:
                        if v in caller_locals or v in mp:
                            ren[v] = ast.Name(id=f"{v}__{h.node.name.strip('_')}{next(_counter)}", ctx=ast.Load())
                    pre, lp, yv = parts
                    pre2 = [_Rename(ren).visit(copy.deepcopy(x)) for x in pre]
                    lp2 = _Rename(ren).visit(copy.deepcopy(lp))
                    yv2 = lp2.body[-1].value.value
                    bind = ast.fix_missing_locations(ast.copy_location(ast.Assign(targets=[copy.deepcopy(st.target)], value=yv2), st))
                    lp2.body = lp2.body[:-1] + [bind] + st.body
                    changed.append("gen:" + h.qual)
                    caller_locals |= {n.id for x in pre2 + [lp2] for n in ast.walk(x) if isinstance(n, ast.Name) and isinstance(n.ctx, ast.Store)}
                    out.extend(pre_bind + pre2 + [ast.fix_missing_locations(lp2)])
                    continue
        out.append(st)
    return out


def _inline_block(M, fn, stmts: List[ast.stmt], caller_locals: set, changed: List[str], depth: int) -> List[ast.stmt]:
    out: List[ast.stmt] = []
    expanded: List[ast.stmt] = []
    for st in stmts:
        rep = _comp_with_helper_to_loop(M, fn, st)
        if rep is not None:
            changed.append("comp->loop")
            expanded.extend(rep)
        else:
            expanded.append(st)
    for st in expanded:
        # recurse into compound statements first
        for fld in ("body", "orelse", "finalbody"):
            if hasattr(st, fld) and isinstance(getattr(st, fld), list) and not isinstance(st, (ast.FunctionDef, ast.AsyncFunctionDef, ast.ClassDef)):
                setattr(st, fld, _inline_block(M, fn, getattr(st, fld), caller_locals, changed, depth + 1))
        if isinstance(st, ast.Try):
            for h in st.handlers:
                h.body = _inline_block(M, fn, h.body, caller_locals, changed, depth + 1)
        call = None
        if isinstance(st, ast.Expr) and isinstance(st.value, ast.Call):
            call = st.value
        elif isinstance(st, (ast.Assign, ast.AnnAssign, ast.Return)) and isinstance(getattr(st, "value", None), ast.Call):
            call = st.value
        h = _resolve_helper(M, fn, call) if call is not None else None
        kind = _simple_helper(h.node) if h is not None else None
        if h is not None and kind == "tail":
            pre = []
            mp = _bind(h, call, pre, {n.id for n in ast.walk(st) if isinstance(n, ast.Name)}
                       if isinstance(st, ast.Return) or (depth == 0 and st is expanded[-1]) else None)      # nothing runs after it: names are dead
            if mp is not None:
                own = _locals_of(h.node) - set(x.arg for x in h.node.args.posonlyargs + h.node.args.args + h.node.args.kwonlyargs)
                ren = dict(mp)
                for v in own:
                    if v in caller_locals or v in mp:
                        ren[v] = ast.Name(id=f"{v}__{h.node.name.strip('_')}{next(_counter)}", ctx=ast.Load())
                body = _guards_to_else([_Rename(ren).visit(x) for x in copy.deepcopy(_body_wo_doc(h.node))])

                def make(val, at, st=st):
                    if isinstance(st, ast.Return):
                        return [ast.copy_location(ast.Return(value=val), at)]
                    if isinstance(st, ast.Expr):
                        return [ast.copy_location(ast.Expr(value=val), at)] if not isinstance(val, (ast.Name, ast.Constant)) else [ast.copy_location(ast.Pass(), at)]
                    st2 = copy.deepcopy(st)
                    st2.value = val
                    return [ast.copy_location(st2, at)]
                _replace_tail(body, make)
                changed.append(h.qual)
                out.extend(pre)
                out.extend(body)
                continue
        if h is not None and kind in ("stmts", "expr"):
            pre: List[ast.stmt] = []
            mp = _bind(h, call, pre, {n.id for n in ast.walk(st) if isinstance(n, ast.Name)}
                       if isinstance(st, ast.Return) or (depth == 0 and st is expanded[-1]) else None)      # nothing runs after it: names are dead
            if mp is not None:
                body, ret = _instantiate(h, mp, caller_locals)
                changed.append(h.qual)
                out.extend(pre)
                out.extend(body)
                if isinstance(st, ast.Expr):
                    if ret is not None and not isinstance(ret, (ast.Name, ast.Constant)):
                        out.append(ast.copy_location(ast.Expr(value=ret), st))
                elif isinstance(st, ast.Return):
                    out.append(ast.copy_location(ast.Return(value=ret), st))
                else:
                    st2 = copy.copy(st)
                    st2.value = ret if ret is not None else ast.Constant(value=None)
                    out.append(st2)
                caller_locals |= {n.id for s_ in body for n in ast.walk(s_) if isinstance(n, ast.Name) and isinstance(n.ctx, ast.Store)}
                continue
        # expression-level helpers
        pre = []
        dead_names = None
        if isinstance(st, ast.Return):
            dead_names = {n.id for n in ast.walk(st) if isinstance(n, ast.Name)}
        if isinstance(st, (ast.Expr, ast.Assign, ast.AugAssign, ast.AnnAssign, ast.Return, ast.For)):
            # a straight-line helper called inside the expression of a simple statement: its body is hoisted before the statement
            # (only calls evaluated unconditionally: not under a lambda / comprehension / conditional expression / and-or)
            def uncond_calls(e):
                outc = []
                def rec(x):
                    if isinstance(x, (ast.Lambda, ast.ListComp, ast.SetComp, ast.DictComp, ast.GeneratorExp, ast.IfExp, ast.BoolOp)):
                        return
                    if isinstance(x, ast.Call):
                        outc.append(x)
                    for ch in ast.iter_child_nodes(x):
                        rec(ch)
                rec(e)
                return outc
            val = st.iter if isinstance(st, ast.For) else getattr(st, "value", None)      # (the iterable of a for is evaluated once)
            for c_ in (uncond_calls(val) if val is not None else []):
                if c_ is call:
                    continue
                h2 = _resolve_helper(M, fn, c_)
                if h2 is not None and _simple_helper(h2.node) == "tail" and not isinstance(st, ast.For):
                    # a guard-clause helper inside the expression: `__r = helper(..)` is put before the statement and expanded there
                    # (every branch of the helper ends in `__r = <its value>`)
                    tmp = f"__{h2.node.name.strip('_')}_r_{next(_counter)}"
                    asg = ast.copy_location(ast.Assign(targets=[ast.Name(id=tmp, ctx=ast.Store())], value=copy.deepcopy(c_)), c_)
                    ast.fix_missing_locations(asg)
                    exp = _inline_block(M, fn, [asg], caller_locals, changed, depth + 1)
                    if len(exp) == 1 and exp[0] is asg:
                        continue
                    pre.extend(exp)
                    caller_locals |= {n.id for s_ in exp for n in ast.walk(s_) if isinstance(n, ast.Name) and isinstance(n.ctx, ast.Store)}

                    class _SwapT(ast.NodeTransformer):
                        def visit_Call(self, n, c_=c_, tmp=tmp):
                            if n is c_:
                                return ast.copy_location(ast.Name(id=tmp, ctx=ast.Load()), n)
                            return self.generic_visit(n)
                    st = _SwapT().visit(st)
                    continue
                if h2 is not None and _simple_helper(h2.node) == "stmts":
                    mp2 = _bind(h2, c_, pre, dead_names)
                    if mp2 is None:
                        continue
                    body2, ret2 = _instantiate(h2, mp2, caller_locals)
                    if ret2 is None:
                        continue
                    pre.extend(body2)
                    changed.append(h2.qual)
                    caller_locals |= {n.id for s_ in body2 for n in ast.walk(s_) if isinstance(n, ast.Name) and isinstance(n.ctx, ast.Store)}

                    class _Swap(ast.NodeTransformer):
                        def visit_Call(self, n, c_=c_, ret2=ret2):
                            if n is c_:
                                return ret2
                            return self.generic_visit(n)
                    if isinstance(st, ast.For):
                        st.iter = _Swap().visit(st.iter)
                    else:
                        st = _Swap().visit(st)
        if not isinstance(st, (ast.FunctionDef, ast.AsyncFunctionDef, ast.ClassDef, ast.For, ast.While, ast.If, ast.With, ast.Try)):
            st = _ExprInliner(M, fn, pre, changed).visit(st)
        else:
            for fld in ("test", "iter"):
                if hasattr(st, fld):
                    setattr(st, fld, _ExprInliner(M, fn, pre, changed).visit(getattr(st, fld)))
        out.extend(pre)
        out.append(st)
    return out


# ------------------------------------------------------------------ loops over literal tables, setattr / getattr
def _literal_items(M, fn, it: ast.AST, top=None):
    """[(key node, value node)] or [value node] for an iterable that is a literal table, else None"""
    src = it
    mode = "values"
    if isinstance(it, ast.Call) and isinstance(it.func, ast.Attribute) and it.func.attr in ("items", "keys", "values") and not it.args:
        src, mode = it.func.value, it.func.attr
    elif isinstance(it, ast.Name) or isinstance(it, ast.Attribute):
        mode = "iter"
    node = src
    if isinstance(src, ast.Attribute) and isinstance(src.value, ast.Name) and fn.cls:
        # self.TABLE / cls.TABLE / Class.TABLE: a class-level literal
        owner = fn.cls if src.value.id in ("self", "cls") else None
        if owner is None:
            r = M.resolve(fn.mod, src.value.id)
            owner = r[1] if r and r[0] == "class" else None
        node = None
        for c in (M.mro(owner) if owner else []):
            if c not in M.classes:
                continue
            for st in M.classes[c].node.body:
                tgt = st.targets[0] if isinstance(st, ast.Assign) and len(st.targets) == 1 else (st.target if isinstance(st, ast.AnnAssign) else None)
                if isinstance(tgt, ast.Name) and tgt.id == src.attr and getattr(st, "value", None) is not None:
                    node = st.value
            if node is not None:
                break
    elif isinstance(src, ast.Name):
        r = M.resolve(fn.mod, src.id)
        node = None
        mod = M.mods[fn.mod]
        for st in mod.tree.body:
            tgt = st.targets[0] if isinstance(st, ast.Assign) and len(st.targets) == 1 else (st.target if isinstance(st, ast.AnnAssign) else None)
            if isinstance(tgt, ast.Name) and tgt.id == src.id and getattr(st, "value", None) is not None:
                node = st.value
        if node is None:
            # a local literal assigned once in the function
            ds = [n for n in ast.walk(top if top is not None else fn.node) if isinstance(n, ast.Assign) and len(n.targets) == 1 and isinstance(n.targets[0], ast.Name)
                  and n.targets[0].id == src.id]
            node = ds[0].value if len(ds) == 1 else None
    if node is None:
        return None
    pairs = None
    if isinstance(node, ast.Dict) and all(k is not None for k in node.keys):
        pairs = list(zip(node.keys, node.values))
    elif isinstance(node, ast.Call) and isinstance(node.func, ast.Name) and node.func.id == "dict" and not node.args and all(k.arg for k in node.keywords):
        pairs = [(ast.Constant(value=k.arg), k.value) for k in node.keywords]
    elif isinstance(node, (ast.Tuple, ast.List)) and mode in ("values", "iter") and not isinstance(it, ast.Call):
        return [("v", e) for e in node.elts] if len(node.elts) <= 32 else None
    elif isinstance(node, ast.Call) and isinstance(node.func, ast.Name) and node.func.id in ("tuple", "list") and len(node.args) == 1 and \
            isinstance(node.args[0], (ast.Tuple, ast.List)) and mode in ("values", "iter"):
        return [("v", e) for e in node.args[0].elts] if len(node.args[0].elts) <= 32 else None
    if pairs is None or len(pairs) > 32:
        return None
    if mode == "items":
        return [("kv", k, v) for k, v in pairs]
    if mode in ("keys", "iter"):
        return [("v", k) for k, v in pairs]
    return [("v", v) for k, v in pairs]


class _UnrollComps(ast.NodeTransformer):
    """[E(x) for x in TABLE] over a literal table (a display, a module- or class-level constant) is the display [E(t1), E(t2), …];
    string methods applied to constants are folded ("title_translit".replace("_", "").upper() is "TITLETRANSLIT"), so that a tag
    derived from a field name reads like the literal tag"""

    def __init__(self, M, fn, top):
        self.M, self.fn, self.top = M, fn, top

    def visit_FunctionDef(self, n):
        return n if n is not self.top else self.generic_visit(n)

    def _comp(self, n):
        n = self.generic_visit(n)
        if len(n.generators) != 1 or n.generators[0].ifs or n.generators[0].is_async:
            return n
        g = n.generators[0]
        items = _literal_items(self.M, self.fn, g.iter, self.top)
        if not items:
            return n
        elts = []
        for itm in items:
            if itm[0] == "kv":
                if not (isinstance(g.target, ast.Tuple) and len(g.target.elts) == 2 and all(isinstance(t, ast.Name) for t in g.target.elts)):
                    return n
                mp = {g.target.elts[0].id: itm[1], g.target.elts[1].id: itm[2]}
            elif isinstance(g.target, ast.Name):
                mp = {g.target.id: itm[1]}
            elif isinstance(g.target, ast.Tuple) and isinstance(itm[1], (ast.Tuple, ast.List)) and len(itm[1].elts) == len(g.target.elts) and \
                    all(isinstance(t, ast.Name) for t in g.target.elts):
                mp = {t.id: v for t, v in zip(g.target.elts, itm[1].elts)}
            else:
                return n
            local_table = isinstance(g.iter, ast.Name) and any(
                isinstance(x, ast.Assign) and len(x.targets) == 1 and isinstance(x.targets[0], ast.Name) and x.targets[0].id == g.iter.id
                for x in ast.walk(self.top))
            plain = all(isinstance(v, (ast.Constant, ast.Name, ast.Attribute)) for v in mp.values())
            # the rows of a display bound once in this very function may be any expression (they are read in place, not run twice)
            readable = local_table and not any(isinstance(x, (ast.Starred, ast.Yield, ast.YieldFrom, ast.Await, ast.NamedExpr))
                                               for v in mp.values() for x in ast.walk(v))
            if not (plain or readable):
                return n
            elts.append(_FoldStr().visit(_Rename(mp).visit(copy.deepcopy(n.elt))))
        return ast.fix_missing_locations(ast.copy_location(ast.List(elts=elts, ctx=ast.Load()), n))
    visit_ListComp = _comp

    def visit_Starred(self, n):
        n = self.generic_visit(n)
        if isinstance(n.value, ast.GeneratorExp):
            r = self._comp(n.value)
            if isinstance(r, ast.List):
                n.value = r
        return n


class _FoldStr(ast.NodeTransformer):
    SAFE = {"replace", "upper", "lower", "strip", "lstrip", "rstrip", "title", "capitalize", "removeprefix", "removesuffix", "swapcase", "casefold"}

    def visit_Call(self, n):
        n = self.generic_visit(n)
        if isinstance(n.func, ast.Attribute) and n.func.attr in self.SAFE and isinstance(n.func.value, ast.Constant) and isinstance(n.func.value.value, str) and \
                not n.keywords and all(isinstance(a, ast.Constant) and isinstance(a.value, (str, int)) for a in n.args):
            try:
                return ast.copy_location(ast.Constant(value=getattr(n.func.value.value, n.func.attr)(*[a.value for a in n.args])), n)
            except Exception:
                return n
        return n

    def visit_JoinedStr(self, n):
        n = self.generic_visit(n)
        vals = []
        for v in n.values:
            if isinstance(v, ast.FormattedValue) and v.conversion == -1 and v.format_spec is None and isinstance(v.value, ast.Constant) and \
                    isinstance(v.value.value, str):
                v = ast.Constant(value=v.value.value)
            if isinstance(v, ast.Constant) and vals and isinstance(vals[-1], ast.Constant):
                vals[-1] = ast.Constant(value=str(vals[-1].value) + str(v.value))
            else:
                vals.append(v)
        n.values = vals
        return n


class _AttrCalls(ast.NodeTransformer):
    def _flat(self, n):
        # [a, *(), *["b"]] -> [a, "b"]: a starred literal display inside a display is spliced in
        n = self.generic_visit(n)
        if any(isinstance(x, ast.Starred) and isinstance(x.value, (ast.List, ast.Tuple)) and
               not any(isinstance(y, ast.Starred) for y in x.value.elts) for x in n.elts):
            elts = []
            for x in n.elts:
                if isinstance(x, ast.Starred) and isinstance(x.value, (ast.List, ast.Tuple)) and not any(isinstance(y, ast.Starred) for y in x.value.elts):
                    elts.extend(x.value.elts)
                else:
                    elts.append(x)
            n.elts = elts
        return n

    visit_List = _flat
    visit_Tuple = _flat

    def visit_Call(self, n):
        n = self.generic_visit(n)
        if isinstance(n.func, ast.Name) and n.func.id == "getattr" and len(n.args) == 2 and isinstance(n.args[1], ast.Constant) and \
                isinstance(n.args[1].value, str) and n.args[1].value.isidentifier():
            return ast.copy_location(ast.Attribute(value=n.args[0], attr=n.args[1].value, ctx=ast.Load()), n)
        # dict(zip(("a", "b"), ("x", "y"))) -> dict(a="x", b="y")
        if isinstance(n.func, ast.Name) and n.func.id == "dict" and len(n.args) == 1 and not n.keywords and isinstance(n.args[0], ast.Call) and \
                isinstance(n.args[0].func, ast.Name) and n.args[0].func.id == "zip" and len(n.args[0].args) == 2 and \
                all(isinstance(a, (ast.Tuple, ast.List)) for a in n.args[0].args):
            ks, vs = n.args[0].args
            if len(ks.elts) == len(vs.elts) and all(isinstance(k, ast.Constant) and isinstance(k.value, str) and k.value.isidentifier() for k in ks.elts):
                return ast.copy_location(ast.Call(func=n.func, args=[], keywords=[ast.keyword(arg=k.value, value=v) for k, v in zip(ks.elts, vs.elts)]), n)
        return n

    def visit_Expr(self, n):
        n = self.generic_visit(n)
        c = n.value
        if isinstance(c, ast.Call) and isinstance(c.func, ast.Name) and c.func.id == "setattr" and len(c.args) == 3 and \
                isinstance(c.args[1], ast.Constant) and isinstance(c.args[1].value, str) and c.args[1].value.isidentifier():
            tgt = ast.Attribute(value=c.args[0], attr=c.args[1].value, ctx=ast.Store())
            return ast.fix_missing_locations(ast.copy_location(ast.Assign(targets=[tgt], value=c.args[2]), n))
        return n

    def visit_FunctionDef(self, n):
        return n


def _fold_const_ifs(stmts: List[ast.stmt]) -> List[ast.stmt]:
    """`if 'a' != 'b': X else: Y` -> X   (tests between two constants, as loop unrolling leaves them)"""
    out = []
    for st in stmts:
        for fld in ("body", "orelse", "finalbody"):
            if isinstance(getattr(st, fld, None), list) and not isinstance(st, (ast.FunctionDef, ast.AsyncFunctionDef, ast.ClassDef)):
                setattr(st, fld, _fold_const_ifs(getattr(st, fld)))
        if isinstance(st, ast.If) and isinstance(st.test, ast.Compare) and len(st.test.ops) == 1 and isinstance(st.test.left, ast.Constant) and \
                isinstance(st.test.comparators[0], ast.Constant):
            a, b, op = st.test.left.value, st.test.comparators[0].value, st.test.ops[0]
            val = None
            try:
                if isinstance(op, ast.Eq):
                    val = a == b
                elif isinstance(op, ast.NotEq):
                    val = a != b
                elif isinstance(op, ast.In):
                    val = a in b
                elif isinstance(op, ast.NotIn):
                    val = a not in b
            except TypeError:
                val = None
            if val is not None:
                out.extend(st.body if val else st.orelse)
                continue
        out.append(st)
    return out


def _unroll_block(M, fn, stmts: List[ast.stmt], changed: List[str], top=None) -> List[ast.stmt]:
    out = []
    for st in stmts:
        for fld in ("body", "orelse", "finalbody"):
            if hasattr(st, fld) and isinstance(getattr(st, fld), list) and not isinstance(st, (ast.FunctionDef, ast.AsyncFunctionDef, ast.ClassDef)):
                setattr(st, fld, _unroll_block(M, fn, getattr(st, fld), changed, top))
        if isinstance(st, ast.For) and not st.orelse and not any(isinstance(x, (ast.Break, ast.Continue)) for x in ast.walk(st)):
            items = _literal_items(M, fn, st.iter, top)
            if items and len(st.body) <= 8 and len(items) * len(st.body) <= 48:
                ok = True
                unrolled = []
                for it in items:
                    mp = {}
                    if it[0] == "kv":
                        if isinstance(st.target, ast.Tuple) and len(st.target.elts) == 2 and all(isinstance(x, ast.Name) for x in st.target.elts):
                            mp = {st.target.elts[0].id: it[1], st.target.elts[1].id: it[2]}
                        elif isinstance(st.target, ast.Tuple) and len(st.target.elts) == 2 and isinstance(st.target.elts[0], ast.Name) and \
                                isinstance(st.target.elts[1], (ast.Tuple, ast.List)) and isinstance(it[2], (ast.Tuple, ast.List)) and \
                                len(st.target.elts[1].elts) == len(it[2].elts) and all(isinstance(x, ast.Name) for x in st.target.elts[1].elts):
                            # for k, (a, b) in TABLE.items() with the values displays of that length
                            mp = {st.target.elts[0].id: it[1]}
                            mp.update({t_.id: v_ for t_, v_ in zip(st.target.elts[1].elts, it[2].elts)})
                        else:
                            ok = False
                    else:
                        if isinstance(st.target, ast.Name):
                            mp = {st.target.id: it[1]}
                        elif isinstance(st.target, ast.Tuple) and isinstance(it[1], (ast.Tuple, ast.List)) and \
                                len(st.target.elts) == len(it[1].elts) and all(isinstance(x, ast.Name) for x in st.target.elts):
                            mp = {t_.id: v_ for t_, v_ in zip(st.target.elts, it[1].elts)}      # for a, b in ((A1, B1), (A2, B2))
                        else:
                            ok = False
                    if not ok:
                        break
                    # only unroll when the substituted values are plain (names / attributes / constants, displays of constants)
                    if not all(isinstance(v, (ast.Name, ast.Constant, ast.Attribute)) or
                               (isinstance(v, (ast.Tuple, ast.List)) and all(isinstance(x, ast.Constant) for x in v.elts)) for v in mp.values()):
                        ok = False
                        break
                    # a loop variable that is assigned in the body cannot be substituted
                    if any(isinstance(x, ast.Name) and isinstance(x.ctx, ast.Store) and x.id in mp for b in st.body for x in ast.walk(b)):
                        ok = False
                        break
                    # a local bound in the body and read only there is a different local in every copy of the body
                    body_stores = {x.id for b in st.body for x in ast.walk(b) if isinstance(x, ast.Name) and isinstance(x.ctx, ast.Store)}
                    if top is not None:
                        private = {nm for nm in body_stores if not any(isinstance(x, ast.Name) and x.id == nm and not any(y is x for y in ast.walk(st))
                                                                       for x in ast.walk(top))}
                    else:
                        private = set()
                    j_ = len(unrolled) // max(1, len(st.body))

                    class _Priv(ast.NodeTransformer):
                        def visit_Name(self, n):
                            if n.id in private:
                                return ast.copy_location(ast.Name(id=f"{n.id}__u{j_}", ctx=n.ctx), n)
                            return n
                    for b in st.body:
                        unrolled.append(_AttrCalls().visit(_Priv().visit(_Rename(mp).visit(copy.deepcopy(b)))))
                if ok:
                    changed.append("unroll")
                    out.extend(unrolled)
                    # the loop variable keeps its last value after the loop: bind it when it is read outside the loop
                    if top is not None and items:
                        inside = sum(1 for x in ast.walk(st) if isinstance(x, ast.Name) and isinstance(x.ctx, ast.Load) and x.id in mp)
                        total = sum(1 for x in ast.walk(top) if isinstance(x, ast.Name) and isinstance(x.ctx, ast.Load) and x.id in mp)
                        if total > inside:
                            for nm, val in mp.items():
                                out.append(ast.fix_missing_locations(ast.copy_location(
                                    ast.Assign(targets=[ast.Name(id=nm, ctx=ast.Store())], value=copy.deepcopy(val)), st)))
                    continue
        out.append(st)
    return out


# ------------------------------------------------------------------ tables of constructor rows
def _row_fields(M, fn, call: ast.Call) -> Optional[List[str]]:
    """field names, in positional order, of the NamedTuple / dataclass a row constructor call builds"""
    r = M.resolve_expr(fn.mod, call.func, fn.cls) if isinstance(call.func, (ast.Name, ast.Attribute)) else None
    if not r or r[0] != "class" or r[1] not in M.classes:
        return None
    c = M.classes[r[1]]
    bases = [ast.unparse(b).split(".")[-1] for b in c.node.bases]
    decos = [ast.unparse(d).split("(")[0].split(".")[-1] for d in c.node.decorator_list]
    if "NamedTuple" not in bases and "dataclass" not in decos:
        return None
    return [st.target.id for st in c.node.body if isinstance(st, ast.AnnAssign) and isinstance(st.target, ast.Name)]


def _expand_row_tables(M, fn, node: ast.FunctionDef, changed: List[str]) -> None:
    """ROWS = [Row(a1, b1), Row(a2, b2)] (a local bound once, never mutated);  (E(g) for g in ROWS)  ->  (E(row1), E(row2)) with
    g.field replaced by the row's argument.  Then chain.from_iterable((x1, x2)) -> [*x1, *x2], list([..]) -> [..] and
    *repeat(c, n) -> *[c] * n, so that a table-driven writer reads like the parallel displays it replaced."""
    tables = {}
    for st in node.body:
        if isinstance(st, ast.Assign) and len(st.targets) == 1 and isinstance(st.targets[0], ast.Name) and isinstance(st.value, (ast.List, ast.Tuple)) and \
                st.value.elts and all(isinstance(e, ast.Call) and not any(isinstance(a, ast.Starred) for a in e.args) for e in st.value.elts):
            nm = st.targets[0].id
            stores = [n for n in ast.walk(node) if isinstance(n, ast.Name) and n.id == nm and isinstance(n.ctx, (ast.Store, ast.Del))]
            mutated = any(isinstance(n, ast.Call) and isinstance(n.func, ast.Attribute) and isinstance(n.func.value, ast.Name) and
                          n.func.value.id == nm and n.func.attr in ("append", "extend", "insert", "pop", "remove", "sort", "reverse", "clear")
                          for n in ast.walk(node))
            if len(stores) != 1 or mutated or len(st.value.elts) > 16:
                continue
            fields = [_row_fields(M, fn, e) for e in st.value.elts]
            if any(f is None for f in fields) or len({tuple(f) for f in fields}) != 1:
                continue
            rows = []
            for e in st.value.elts:
                vals = dict(zip(fields[0], e.args))
                vals.update({k.arg: k.value for k in e.keywords if k.arg})
                rows.append(vals)
            if all(set(r_) == set(fields[0]) for r_ in rows):
                tables[nm] = rows
    if not tables:
        return

    class T(ast.NodeTransformer):
        def _comp(self, n):
            n = self.generic_visit(n)
            if len(n.generators) == 1 and not n.generators[0].ifs and isinstance(n.generators[0].iter, ast.Name) and \
                    n.generators[0].iter.id in tables and isinstance(n.generators[0].target, ast.Name):
                g = n.generators[0].target.id
                elts = []
                for row in tables[n.generators[0].iter.id]:
                    class Sub(ast.NodeTransformer):
                        def visit_Attribute(self, a, row=row):
                            if isinstance(a.value, ast.Name) and a.value.id == g and a.attr in row:
                                return ast.copy_location(copy.deepcopy(row[a.attr]), a)
                            return self.generic_visit(a)
                    e = Sub().visit(copy.deepcopy(n.elt))
                    if any(isinstance(x, ast.Name) and x.id == g for x in ast.walk(e)):
                        return n          # the row object itself is used: leave the comprehension alone
                    elts.append(e)
                changed.append("rows")
                return ast.copy_location(ast.Tuple(elts=elts, ctx=ast.Load()), n)
            return n

        visit_GeneratorExp = _comp
        visit_ListComp = _comp

        def visit_Call(self, n):
            n = self.generic_visit(n)
            f = ast.unparse(n.func)
            if f in ("chain.from_iterable", "itertools.chain.from_iterable") and len(n.args) == 1 and isinstance(n.args[0], (ast.Tuple, ast.List)):
                return ast.copy_location(ast.List(elts=[ast.Starred(value=x, ctx=ast.Load()) for x in n.args[0].elts], ctx=ast.Load()), n)
            if f in ("list", "tuple") and len(n.args) == 1 and not n.keywords and isinstance(n.args[0], ast.List):
                return n.args[0]
            return n

        def visit_Starred(self, n):
            n = self.generic_visit(n)
            v = n.value
            if isinstance(v, ast.Call) and ast.unparse(v.func) in ("repeat", "itertools.repeat") and len(v.args) == 2 and not v.keywords:
                n.value = ast.copy_location(ast.BinOp(left=ast.List(elts=[v.args[0]], ctx=ast.Load()), op=ast.Mult(), right=v.args[1]), v)
            return n
    for i, st in enumerate(node.body):
        if not isinstance(st, (ast.FunctionDef, ast.ClassDef)):
            node.body[i] = T().visit(st)


# ------------------------------------------------------------------ dict dispatch
def _dict_node(M, fn, top: ast.FunctionDef, e: ast.AST) -> Optional[ast.Dict]:
    """the dict display a name denotes: a local assigned once (never mutated), or a module / class level literal"""
    if isinstance(e, ast.Dict):
        return e
    if isinstance(e, ast.Name):
        ds = [n for n in ast.walk(top) if isinstance(n, (ast.Assign, ast.AnnAssign)) and
              isinstance(n.targets[0] if isinstance(n, ast.Assign) else n.target, ast.Name) and
              (n.targets[0] if isinstance(n, ast.Assign) else n.target).id == e.id]
        stores = [n for n in ast.walk(top) if isinstance(n, ast.Name) and n.id == e.id and isinstance(n.ctx, (ast.Store, ast.Del))]
        if len(ds) == 1 and len(stores) == 1 and isinstance(ds[0].value, ast.Dict):
            # never mutated: no subscript store / method call other than get / keys / values / items on it
            for n in ast.walk(top):
                if isinstance(n, ast.Subscript) and isinstance(n.ctx, (ast.Store, ast.Del)) and isinstance(n.value, ast.Name) and n.value.id == e.id:
                    return None
                if isinstance(n, ast.Call) and isinstance(n.func, ast.Attribute) and isinstance(n.func.value, ast.Name) and \
                        n.func.value.id == e.id and n.func.attr not in ("get", "keys", "values", "items"):
                    return None
            return ds[0].value
        if not stores:
            mod = M.mods[fn.mod]
            for st in mod.tree.body:
                tgt = st.targets[0] if isinstance(st, ast.Assign) and len(st.targets) == 1 else (st.target if isinstance(st, ast.AnnAssign) else None)
                if isinstance(tgt, ast.Name) and tgt.id == e.id and isinstance(getattr(st, "value", None), ast.Dict):
                    return st.value
    return None


def _expand_dispatch(M, fn, top: ast.FunctionDef, stmts: List[ast.stmt], changed: List[str]) -> List[ast.stmt]:
    """`if v in TABLE: body(TABLE[v])`  ->  `if v == K1: body(V1) elif v == K2: body(V2) ...` (else-part kept)"""
    out = []
    for st in stmts:
        for fld in ("body", "orelse", "finalbody"):
            if isinstance(getattr(st, fld, None), list) and not isinstance(st, (ast.FunctionDef, ast.AsyncFunctionDef, ast.ClassDef)):
                setattr(st, fld, _expand_dispatch(M, fn, top, getattr(st, fld), changed))
        if isinstance(st, ast.If) and isinstance(st.test, ast.Compare) and len(st.test.ops) == 1 and isinstance(st.test.ops[0], ast.In) and \
                isinstance(st.test.left, ast.Name):
            d = _dict_node(M, fn, top, st.test.comparators[0])
            var = st.test.left.id
            tname = ast.unparse(st.test.comparators[0])
            if d is not None and 0 < len(d.keys) <= 16 and all(k is not None for k in d.keys) and \
                    not any(isinstance(n, ast.Name) and n.id == var and isinstance(n.ctx, ast.Store) for b in st.body for n in ast.walk(b)):
                class Sub(ast.NodeTransformer):
                    def __init__(self, val):
                        self.val = val

                    def visit_Subscript(self, n):
                        if ast.unparse(n.value) == tname and isinstance(n.slice, ast.Name) and n.slice.id == var:
                            return ast.copy_location(copy.deepcopy(self.val), n)
                        return self.generic_visit(n)

                    def visit_Call(self, n):
                        if isinstance(n.func, ast.Attribute) and n.func.attr == "get" and ast.unparse(n.func.value) == tname and n.args and \
                                isinstance(n.args[0], ast.Name) and n.args[0].id == var:
                            return ast.copy_location(copy.deepcopy(self.val), n)
                        return self.generic_visit(n)
                chain = None
                tail = st.orelse
                for k, v in reversed(list(zip(d.keys, d.values))):
                    body = [_AttrCalls().visit(Sub(v).visit(copy.deepcopy(b))) for b in st.body]
                    test = ast.Compare(left=ast.Name(id=var, ctx=ast.Load()), ops=[ast.Eq()], comparators=[copy.deepcopy(k)])
                    node = ast.If(test=test, body=body, orelse=tail if chain is None else [chain])
                    chain = ast.fix_missing_locations(ast.copy_location(node, st))
                changed.append("dispatch")
                out.append(chain)
                continue
        out.append(st)
    return out


# ------------------------------------------------------------------ local closures
def _inline_closures(node: ast.FunctionDef, changed: List[str]) -> None:
    """calls of a nested `def f(a, b): [simple statements]; return <expr>` (after forward substitution a single return) are
    replaced by the expression; complex arguments are bound to fresh locals placed before the statement"""
    closures = {}
    for st in node.body:
        if isinstance(st, ast.FunctionDef) and not st.decorator_list and not st.args.vararg and not st.args.kwarg and not st.args.kwonlyargs:
            c = copy.deepcopy(st)
            _split_tuple_assigns(c)
            _forward_subst(c, set())
            b = _body_wo_doc(c)
            if len(b) == 1 and isinstance(b[0], ast.Return) and b[0].value is not None and \
                    not any(isinstance(n, ast.Name) and n.id == st.name for n in ast.walk(b[0])):
                closures[st.name] = c
    # procedure closures: `def f(a): nonlocal x, y; <simple statements>` called as a statement `f(arg)` — the body is put in
    # place of the call (a `nonlocal` name is the enclosing function's own local: exactly what inlining means)
    procs = {}
    for st in node.body:
        if isinstance(st, ast.FunctionDef) and st.name not in closures and not st.decorator_list and not st.args.vararg and \
                not st.args.kwarg and not st.args.kwonlyargs and not st.args.defaults:
            b = _body_wo_doc(st)
            if b and isinstance(b[-1], ast.Return) and b[-1].value is None:
                b = b[:-1]
            if b and not any(isinstance(n, (ast.Return, ast.Yield, ast.YieldFrom, ast.FunctionDef, ast.Lambda, ast.Global)) for x in b for n in ast.walk(x)) and \
                    not any(isinstance(n, ast.Name) and n.id == st.name for x in b for n in ast.walk(x)):
                procs[st.name] = (st, b)
    for n in ast.walk(node):
        if isinstance(n, ast.Name) and n.id in procs and isinstance(n.ctx, ast.Store):
            procs.pop(n.id, None)
    if procs:
        outer_names = {n.id for st in node.body if not isinstance(st, ast.FunctionDef) for n in ast.walk(st) if isinstance(n, ast.Name)}
        for block in _blocks(node):
            i = 0
            while i < len(block):
                st = block[i]
                c = st.value if isinstance(st, ast.Expr) else None
                if isinstance(c, ast.Call) and isinstance(c.func, ast.Name) and c.func.id in procs and not c.keywords and \
                        not any(isinstance(a, ast.Starred) for a in c.args):
                    fdef, body = procs[c.func.id]
                    ps = [a.arg for a in fdef.args.args]
                    if len(ps) == len(c.args):
                        nl = {nm for x in body if isinstance(x, ast.Nonlocal) for nm in x.names}
                        own = {n.id for x in body for n in ast.walk(x) if isinstance(n, ast.Name) and isinstance(n.ctx, ast.Store)} - nl
                        ren = {}
                        pre = []
                        for p_, a_ in zip(ps, c.args):
                            nm = p_ if p_ not in outer_names else f"{p_}__{c.func.id}{next(_counter)}"
                            if nm != p_:
                                ren[p_] = ast.Name(id=nm, ctx=ast.Load())
                            pre.append(ast.fix_missing_locations(ast.copy_location(
                                ast.Assign(targets=[ast.Name(id=nm, ctx=ast.Store())], value=copy.deepcopy(a_)), st)))
                        for v in own:
                            if v in outer_names and v not in ps:
                                ren[v] = ast.Name(id=f"{v}__{c.func.id}{next(_counter)}", ctx=ast.Load())
                        new_body = [_Rename(ren).visit(copy.deepcopy(x)) for x in body if not isinstance(x, ast.Nonlocal)]
                        block[i:i + 1] = pre + new_body
                        changed.append("proc:" + c.func.id)
                        i += len(pre) + len(new_body)
                        continue
                i += 1
        for name in list(procs):
            if not any(isinstance(n, ast.Name) and n.id == name and isinstance(n.ctx, ast.Load) for n in ast.walk(node)):
                node.body = [st for st in node.body if not (isinstance(st, ast.FunctionDef) and st.name == name)]
    if not closures:
        return
    # a closure name that is re-bound or passed around as a value is left alone
    for n in ast.walk(node):
        if isinstance(n, ast.Name) and n.id in closures and isinstance(n.ctx, ast.Store):
            closures.pop(n.id, None)

    class Inl(ast.NodeTransformer):
        def __init__(self):
            self.pre = []

        def visit_FunctionDef(self, n):
            return n

        def visit_Call(self, n):
            n = self.generic_visit(n)
            if isinstance(n.func, ast.Name) and n.func.id in closures and not n.keywords and not any(isinstance(a, ast.Starred) for a in n.args):
                c = closures[n.func.id]
                ps = [a.arg for a in c.args.args]
                dflt = dict(zip(ps[::-1], c.args.defaults[::-1]))
                if len(n.args) > len(ps):
                    return n
                mp = {}
                for i, p_ in enumerate(ps):
                    v = n.args[i] if i < len(n.args) else dflt.get(p_)
                    if v is None:
                        return n
                    if isinstance(v, (ast.Name, ast.Constant)) or (isinstance(v, ast.Attribute) and isinstance(v.value, ast.Name)):
                        mp[p_] = v
                    else:
                        tmp = f"__{n.func.id}_{p_}_{next(_counter)}"
                        self.pre.append(ast.fix_missing_locations(ast.copy_location(
                            ast.Assign(targets=[ast.Name(id=tmp, ctx=ast.Store())], value=copy.deepcopy(v)), n)))
                        mp[p_] = ast.Name(id=tmp, ctx=ast.Load())
                changed.append("closure:" + n.func.id)
                return ast.copy_location(_Rename(mp).visit(copy.deepcopy(_body_wo_doc(c)[0].value)), n)
            return n

    for block in _blocks(node):
        i = 0
        while i < len(block):
            st = block[i]
            if isinstance(st, (ast.FunctionDef, ast.AsyncFunctionDef, ast.ClassDef)):
                i += 1
                continue
            inl = Inl()
            if isinstance(st, (ast.For, ast.While, ast.If, ast.With, ast.Try)):
                for fld in ("test", "iter"):
                    if hasattr(st, fld):
                        setattr(st, fld, inl.visit(getattr(st, fld)))
            else:
                block[i] = inl.visit(st)
            if inl.pre:
                block[i:i] = inl.pre
                i += len(inl.pre)
            i += 1
    # a closure that is no longer referenced is dropped
    for name in list(closures):
        if not any(isinstance(n, ast.Name) and n.id == name and isinstance(n.ctx, ast.Load) for n in ast.walk(node)):
            node.body = [st for st in node.body if not (isinstance(st, ast.FunctionDef) and st.name == name)]


# ------------------------------------------------------------------ optional steps
def _always_exits(block: List[ast.stmt]) -> bool:
    """every path through the block ends in return / raise / continue / break"""
    if not block:
        return False
    last = block[-1]
    if isinstance(last, (ast.Return, ast.Raise, ast.Continue, ast.Break)):
        return True
    if isinstance(last, ast.If) and last.orelse:
        return _always_exits(last.body) and _always_exits(last.orelse)
    return False


def _guards_to_else(stmts: List[ast.stmt]) -> List[ast.stmt]:
    out = []
    for i, st in enumerate(stmts):
        for fld in ("body", "orelse", "finalbody"):
            if hasattr(st, fld) and isinstance(getattr(st, fld), list) and not isinstance(st, (ast.FunctionDef, ast.AsyncFunctionDef, ast.ClassDef)):
                setattr(st, fld, _guards_to_else(getattr(st, fld)))
        if isinstance(st, ast.If) and not st.orelse and st.body and _always_exits(st.body) and stmts[i + 1:]:
            rest = _guards_to_else(stmts[i + 1:])
            st.orelse = rest
            out.append(st)
            return out
        out.append(st)
    return out


def _split_tuple_assigns(node, attrs: bool = False) -> None:
    """a, b = x, y  ->  a = x; b = y   (plain names on the left — with attrs=True also `o.a, o.b = x, y` — none of them read on the right)"""
    for block in _blocks(node):
        i = 0
        while i < len(block):
            st = block[i]
            if isinstance(st, ast.Assign) and len(st.targets) == 1 and isinstance(st.targets[0], ast.Tuple) and \
                    isinstance(st.value, ast.Tuple) and len(st.value.elts) == len(st.targets[0].elts) and \
                    all(isinstance(t, ast.Name) or (attrs and isinstance(t, ast.Attribute) and isinstance(t.value, ast.Name))
                        for t in st.targets[0].elts) and \
                    not any(isinstance(x, ast.Starred) for x in st.value.elts):
                names = {t.id for t in st.targets[0].elts if isinstance(t, ast.Name)}
                # (attribute targets `o.a, o.b = x, y`: the right side may not read an attribute of o that the left side stores)
                stored_attrs = {(t.value.id, t.attr) for t in st.targets[0].elts if isinstance(t, ast.Attribute)}
                reads_stored = any(isinstance(n, ast.Attribute) and isinstance(n.value, ast.Name) and (n.value.id, n.attr) in stored_attrs
                                   for n in ast.walk(st.value))
                if not any(isinstance(n, ast.Name) and n.id in names for n in ast.walk(st.value)) and not reads_stored:
                    new = [ast.copy_location(ast.Assign(targets=[copy.deepcopy(t)], value=v), st)
                           for t, v in zip(st.targets[0].elts, st.value.elts)]
                    block[i:i + 1] = new
                    i += len(new)
                    continue
            i += 1


def _expand_unpack(node) -> None:
    """a, b, c = <expr>   ->   __u = <expr>; a = __u[0]; b = __u[1]; c = __u[2]
    (plain names on the left, no star; the right side anything but a tuple display — those are split by _split_tuple_assigns).
    The length check of the unpacking is the only thing lost, and no rule depends on it."""
    for block in _blocks(node):
        i = 0
        while i < len(block):
            st = block[i]
            if isinstance(st, ast.Assign) and len(st.targets) == 1 and isinstance(st.targets[0], ast.Tuple) and \
                    not isinstance(st.value, (ast.Tuple, ast.List)) and len(st.targets[0].elts) >= 2 and \
                    all(isinstance(t, ast.Name) for t in st.targets[0].elts):
                tmp = f"__u{next(_counter)}"
                new = [ast.Assign(targets=[ast.Name(id=tmp, ctx=ast.Store())], value=st.value)]
                for k, t in enumerate(st.targets[0].elts):
                    new.append(ast.Assign(targets=[ast.Name(id=t.id, ctx=ast.Store())],
                                          value=ast.Subscript(value=ast.Name(id=tmp, ctx=ast.Load()), slice=ast.Constant(value=k), ctx=ast.Load())))
                new = [ast.fix_missing_locations(ast.copy_location(x, st)) for x in new]
                block[i:i + 1] = new
                i += len(new)
                continue
            i += 1


def _version_rebinds(node: ast.FunctionDef) -> None:
    """x = e0; ... x = f(x) ...   ->   x = e0; ... x__2 = f(x) ...  for names re-bound by plain assignments at the top level of
    the function body only (no binding of the name inside a compound statement, no augmented assignment, not a parameter):
    every later read sees the latest version, so each version is a single-assignment name the substitution can handle"""
    params = {a.arg for a in node.args.posonlyargs + node.args.args + node.args.kwonlyargs}
    top_defs: Dict[str, int] = {}
    for st in node.body:
        if isinstance(st, ast.Assign) and len(st.targets) == 1 and isinstance(st.targets[0], ast.Name):
            top_defs[st.targets[0].id] = top_defs.get(st.targets[0].id, 0) + 1
    all_stores: Dict[str, int] = {}
    for n in ast.walk(node):
        if isinstance(n, ast.Name) and isinstance(n.ctx, (ast.Store, ast.Del)):
            all_stores[n.id] = all_stores.get(n.id, 0) + 1
    cands = {v for v, c in top_defs.items() if c >= 2 and all_stores.get(v) == c and v not in params}
    if not cands:
        return
    cur: Dict[str, str] = {}
    ver: Dict[str, int] = {}
    for st in node.body:
        # reads first (the right-hand side sees the previous version)
        tgt = st.targets[0] if isinstance(st, ast.Assign) and len(st.targets) == 1 and isinstance(st.targets[0], ast.Name) else None
        for n in ast.walk(st):
            if isinstance(n, ast.Name) and n.id in cur and isinstance(n.ctx, ast.Load) and n is not tgt:
                n.id = cur[n.id]
        if tgt is not None and tgt.id in cands:
            base = tgt.id
            ver[base] = ver.get(base, 0) + 1
            if ver[base] > 1:
                tgt.id = f"{base}__{ver[base]}"
                cur[base] = tgt.id


def _blocks(node):
    """every statement list of a function (no nested definitions)"""
    out = []
    def rec(stmts):
        out.append(stmts)
        for st in stmts:
            if isinstance(st, (ast.FunctionDef, ast.AsyncFunctionDef, ast.ClassDef)):
                continue
            for fld in ("body", "orelse", "finalbody"):
                if isinstance(getattr(st, fld, None), list):
                    rec(getattr(st, fld))
            if isinstance(st, ast.Try):
                for h in st.handlers:
                    rec(h.body)
    rec(node.body)
    return out


def _is_path(e: ast.AST) -> bool:
    """a name, an attribute chain, or a constant subscript of one: `self[0].bpms`, `RAConst.msec_to_sec`"""
    while True:
        if isinstance(e, (ast.Name, ast.Constant)):
            return True
        if isinstance(e, ast.Attribute):
            e = e.value
        elif isinstance(e, ast.Subscript) and isinstance(e.slice, ast.Constant):
            e = e.value
        else:
            return False


def _forward_subst(fn_node: ast.FunctionDef, keep: set, alias_only: bool = False, store_values: bool = False) -> None:
    """substitute single-assignment locals (assigned once from an expression, all uses later in the same block or below it)"""
    params = {a.arg for a in fn_node.args.posonlyargs + fn_node.args.args + fn_node.args.kwonlyargs}
    for _ in range(24):
        counts: Dict[str, int] = {}
        loads: Dict[str, int] = {}
        for n in ast.walk(fn_node):
            if isinstance(n, ast.Name):
                if isinstance(n.ctx, (ast.Store, ast.Del)):
                    counts[n.id] = counts.get(n.id, 0) + 1
                else:
                    loads[n.id] = loads.get(n.id, 0) + 1
        done = False
        for block in _blocks(fn_node):
            for i, st in enumerate(block):
                if not (isinstance(st, ast.Assign) and len(st.targets) == 1 and isinstance(st.targets[0], ast.Name)):
                    continue
                v = st.targets[0].id
                if counts.get(v, 0) != 1 or v in params or v in keep:
                    continue
                free = {n.id for n in ast.walk(st.value) if isinstance(n, ast.Name)}
                if any(isinstance(n, (ast.Yield, ast.YieldFrom, ast.Await, ast.NamedExpr)) for n in ast.walk(st.value)):
                    continue
                rest = block[i + 1:]
                uses = [n for s2 in rest for n in ast.walk(s2) if isinstance(n, ast.Name) and n.id == v and isinstance(n.ctx, ast.Load)]
                # a pure builtin of path expressions (`len(measure_str)`) may be re-evaluated anywhere its operands are unchanged
                pure = isinstance(st.value, ast.Call) and isinstance(st.value.func, ast.Name) and st.value.func.id in ("len", "int", "float", "abs", "str", "bool") \
                    and not st.value.keywords and all(_is_path(a) for a in st.value.args)
                trivial = _is_path(st.value) or (pure and not alias_only)
                # store_values: a value computed first and then stored whole (`x = f(..); ...; o.a = x`) is put into the store
                whole_store = store_values and len(uses) == 1 and loads.get(v, 0) == 1 and any(
                    isinstance(s2, ast.Assign) and s2.value is uses[0] and len(s2.targets) == 1 and isinstance(s2.targets[0], ast.Attribute)
                    for s2 in rest)
                if alias_only and not trivial and not (v.startswith("__") and loads.get(v, 0) == 1) and not whole_store:
                    continue      # (temporaries the normaliser itself introduced for arguments are always put back)
                if not uses or len(uses) != loads.get(v, 0) or (len(uses) > 3 and not trivial):
                    continue
                # stores THROUGH the name (v.x = .., v[i] = .., v.at[..] = ..) mean the object is mutated: keep it
                mutated = False
                for s2 in rest:
                    for n in ast.walk(s2):
                        if isinstance(n, (ast.Attribute, ast.Subscript)) and isinstance(n.ctx, (ast.Store, ast.Del)):
                            b = n
                            while isinstance(b, (ast.Attribute, ast.Subscript)):
                                b = b.value
                            if isinstance(b, ast.Name) and b.id == v:
                                mutated = True
                # a method called on the name as a statement, its result thrown away (v.insert(..), v.append(..), v.sort()): it is
                # called for its effect on the object
                for s2 in rest:
                    for n in ast.walk(s2):
                        if isinstance(n, ast.Expr) and isinstance(n.value, ast.Call) and isinstance(n.value.func, ast.Attribute) and \
                                isinstance(n.value.func.value, ast.Name) and n.value.func.value.id == v:
                            mutated = True
                # a use inside a loop / comprehension would re-evaluate the expression: only substitute outside loops
                def _mentions(x):
                    return any(isinstance(n, ast.Name) and n.id == v for n in ast.walk(x))
                in_loop = False
                for s2 in rest:
                    for n in ast.walk(s2):
                        if isinstance(n, ast.For) and any(_mentions(b) for b in n.body + n.orelse):
                            in_loop = True       # (the iterable of a for is evaluated once: a use there is fine)
                        elif isinstance(n, ast.While) and _mentions(n):
                            in_loop = True
                        elif isinstance(n, (ast.ListComp, ast.SetComp, ast.DictComp, ast.GeneratorExp)):
                            inner = [n.elt] if not isinstance(n, ast.DictComp) else [n.key, n.value]
                            inner += [c for g in n.generators for c in g.ifs] + [g.iter for g in n.generators[1:]]
                            if any(_mentions(b) for b in inner):
                                in_loop = True
                        elif isinstance(n, ast.Lambda) and _mentions(n.body):
                            in_loop = True
                # an operand stored through between the definition and the last use would change what the expression sees
                last = max(k for k, s2 in enumerate(rest) if any(isinstance(n, ast.Name) and n.id == v for n in ast.walk(s2)))
                for s2 in rest[:last]:
                    for n in ast.walk(s2):
                        if isinstance(n, (ast.Attribute, ast.Subscript)) and isinstance(n.ctx, (ast.Store, ast.Del)):
                            b = n
                            while isinstance(b, (ast.Attribute, ast.Subscript)):
                                b = b.value
                            if isinstance(b, ast.Name) and b.id in free:
                                mutated = True
                        # ... and so would re-binding an operand
                        if isinstance(n, ast.Name) and isinstance(n.ctx, (ast.Store, ast.Del)) and n.id in free:
                            mutated = True
                for n in ast.walk(rest[last]):
                    if isinstance(n, ast.Name) and isinstance(n.ctx, (ast.Store, ast.Del)) and n.id in free and not isinstance(rest[last], ast.Assign):
                        mutated = True
                if mutated or (in_loop and not trivial):
                    continue
                for s2 in rest:
                    _Rename({v: st.value}).visit(s2)
                del block[i]
                done = True
                break
            if done:
                break
        if not done:
            return


_OPS = {"ge": ast.GtE, "gt": ast.Gt, "le": ast.LtE, "lt": ast.Lt, "eq": ast.Eq, "ne": ast.NotEq}
_BINOPS = {"add": ast.Add, "sub": ast.Sub, "mul": ast.Mult, "truediv": ast.Div, "floordiv": ast.FloorDiv, "mod": ast.Mod,
           "and_": ast.BitAnd, "or_": ast.BitOr, "xor": ast.BitXor,
           # the in-place variants return the result as well: x = operator.imul(x, y) is x = x * y for the analysis
           "iadd": ast.Add, "isub": ast.Sub, "imul": ast.Mult, "itruediv": ast.Div, "ifloordiv": ast.FloorDiv, "imod": ast.Mod}


class _OperatorCalls(ast.NodeTransformer):
    """(f if c else g)(args) -> f(args) if c else g(args);  operator.ge(a, b) -> a >= b;  (a, b) == (x, y) -> a == x and b == y"""

    def __init__(self, M, fn):
        self.M, self.fn = M, fn

    def visit_Compare(self, n):
        n = self.generic_visit(n)
        if len(n.ops) == 1 and isinstance(n.ops[0], (ast.Eq, ast.NotEq)) and isinstance(n.left, ast.Tuple) and isinstance(n.comparators[0], ast.Tuple) and \
                len(n.left.elts) == len(n.comparators[0].elts) >= 2 and not any(isinstance(x, ast.Starred) for x in n.left.elts + n.comparators[0].elts):
            parts = [ast.copy_location(ast.Compare(left=a, ops=[type(n.ops[0])()], comparators=[b]), n) for a, b in zip(n.left.elts, n.comparators[0].elts)]
            return ast.copy_location(ast.BoolOp(op=ast.And() if isinstance(n.ops[0], ast.Eq) else ast.Or(), values=parts), n)
        return n

    def visit_Call(self, n):
        n = self.generic_visit(n)
        if isinstance(n.func, ast.IfExp) and not n.keywords and all(isinstance(a, (ast.Name, ast.Attribute, ast.Constant, ast.BinOp, ast.IfExp, ast.UnaryOp))
                                                                    for a in n.args):
            a = ast.Call(func=n.func.body, args=copy.deepcopy(n.args), keywords=[])
            b = ast.Call(func=n.func.orelse, args=copy.deepcopy(n.args), keywords=[])
            r = ast.IfExp(test=n.func.test, body=self.visit_Call(ast.copy_location(a, n)), orelse=self.visit_Call(ast.copy_location(b, n)))
            return ast.copy_location(r, n)
        f = n.func
        if isinstance(f, ast.Name) and f.id == "zip" and len(n.args) == 2 and not n.keywords and _is_path(n.args[0]) and \
                isinstance(n.args[1], ast.Subscript) and isinstance(n.args[1].slice, ast.Slice) and ast.unparse(n.args[1].slice) == "1:" and \
                ast.unparse(n.args[1].value) == ast.unparse(n.args[0]):
            # zip stops at the shorter: zip(x, x[1:]) is zip(x[:-1], x[1:])
            a0 = ast.Subscript(value=n.args[0], slice=ast.Slice(lower=None, upper=ast.UnaryOp(op=ast.USub(), operand=ast.Constant(value=1)), step=None), ctx=ast.Load())
            n.args[0] = ast.copy_location(a0, n.args[0])
            return ast.fix_missing_locations(n)
        if isinstance(f, ast.Name) and len(n.args) == 2 and not n.keywords:
            # from operator import truediv: truediv(a, b) -> a / b
            r = self.M.resolve(self.fn.mod, f.id)
            if r and r[0] == "external" and r[1].split(".")[0] in ("operator", "_operator") and "." in r[1]:
                nm = r[1].split(".", 1)[1]
                if nm in _OPS:
                    return ast.copy_location(ast.Compare(left=n.args[0], ops=[_OPS[nm]()], comparators=[n.args[1]]), n)
                if nm in _BINOPS:
                    return ast.copy_location(ast.BinOp(left=n.args[0], op=_BINOPS[nm](), right=n.args[1]), n)
        if isinstance(f, ast.Attribute) and isinstance(f.value, ast.Name) and len(n.args) == 2 and not n.keywords:
            r = self.M.resolve(self.fn.mod, f.value.id)
            if r and r[0] == "external" and r[1] in ("operator", "_operator"):
                if f.attr in _OPS:
                    return ast.copy_location(ast.Compare(left=n.args[0], ops=[_OPS[f.attr]()], comparators=[n.args[1]]), n)
                if f.attr in _BINOPS:
                    return ast.copy_location(ast.BinOp(left=n.args[0], op=_BINOPS[f.attr](), right=n.args[1]), n)
        return n


def _loops_to_comps(node: ast.FunctionDef) -> None:
    """acc = []; for v in S: [if P:] acc.append(E) [else: other.append(F)]   ->   acc = [E for v in S if P]; other = [F for v in S if not P]
    Accumulators are locals initialised with `[]` in the same block before the loop, appended to at exactly one place of the loop
    and not otherwise mentioned in it; the loop contains nothing but such appends under if / elif / else (no break / continue)."""
    for block in _blocks(node):
        i = 0
        while i < len(block):
            lp = block[i]
            if not (isinstance(lp, ast.For) and not lp.orelse and not any(isinstance(x, (ast.Break, ast.Continue, ast.Return)) for x in ast.walk(lp))):
                i += 1
                continue
            sites = []       # (acc, expr, [conditions])
            ok = True

            def walk(stmts, conds):
                nonlocal ok
                for st in stmts:
                    if isinstance(st, ast.Expr) and isinstance(st.value, ast.Call) and isinstance(st.value.func, ast.Attribute) and \
                            st.value.func.attr == "append" and isinstance(st.value.func.value, ast.Name) and len(st.value.args) == 1 and \
                            not st.value.keywords:
                        sites.append((st.value.func.value.id, st.value.args[0], list(conds)))
                    elif isinstance(st, ast.If):
                        walk(st.body, conds + [st.test])
                        neg = ast.UnaryOp(op=ast.Not(), operand=st.test)
                        if isinstance(st.test, ast.Compare) and len(st.test.ops) == 1 and isinstance(st.test.ops[0], (ast.In, ast.NotIn, ast.Eq, ast.NotEq)):
                            flip = {ast.In: ast.NotIn, ast.NotIn: ast.In, ast.Eq: ast.NotEq, ast.NotEq: ast.Eq}[type(st.test.ops[0])]
                            neg = ast.Compare(left=st.test.left, ops=[flip()], comparators=st.test.comparators)
                        walk(st.orelse, conds + [neg])
                    elif isinstance(st, ast.Expr) and isinstance(st.value, ast.Constant):
                        pass
                    else:
                        ok = False
            walk(lp.body, [])
            accs = [a for a, _, _ in sites]
            if not ok or not sites or len(set(accs)) != len(accs):
                i += 1
                continue
            # each accumulator: initialised with [] earlier in this block, not mentioned between init and loop, nor elsewhere in the loop
            inits = {}
            for a in accs:
                for j in range(i - 1, -1, -1):
                    st = block[j]
                    mentions = any(isinstance(n, ast.Name) and n.id == a for n in ast.walk(st))
                    if not mentions:
                        continue
                    tgt = st.targets[0] if isinstance(st, ast.Assign) and len(st.targets) == 1 else (st.target if isinstance(st, ast.AnnAssign) else None)
                    if isinstance(tgt, ast.Name) and tgt.id == a and isinstance(getattr(st, "value", None), ast.List) and not st.value.elts:
                        inits[a] = j
                    break
            uses_in_loop = {a: sum(1 for n in ast.walk(lp) if isinstance(n, ast.Name) and n.id == a) for a in accs}
            loopvars = {n.id for n in ast.walk(lp.target) if isinstance(n, ast.Name)}
            if set(inits) != set(accs) or any(u != 1 for u in uses_in_loop.values()) or \
                    any(isinstance(n, ast.Name) and n.id in loopvars for s2 in block[i + 1:] for n in ast.walk(s2)):
                i += 1
                continue
            new = []
            for a, e, conds in sites:
                comp = ast.ListComp(elt=copy.deepcopy(e), generators=[ast.comprehension(
                    target=copy.deepcopy(lp.target), iter=copy.deepcopy(lp.iter), ifs=[copy.deepcopy(c) for c in conds], is_async=0)])
                new.append(ast.fix_missing_locations(ast.copy_location(ast.Assign(targets=[ast.Name(id=a, ctx=ast.Store())], value=comp), lp)))
            block[i:i + 1] = new
            for j in sorted(inits.values(), reverse=True):
                del block[j]
                i -= 1
            i += len(new)


def _if_to_ifexp(node: ast.FunctionDef) -> None:
    """if c: x = A  else: x = B   ->   x = A if c else B      (one plain name, one statement per arm)"""
    for block in _blocks(node):
        for i, st in enumerate(block):
            if isinstance(st, ast.If) and len(st.body) == 1 and len(st.orelse) == 1 and \
                    all(isinstance(x, ast.Assign) and len(x.targets) == 1 and isinstance(x.targets[0], ast.Name) for x in (st.body[0], st.orelse[0])) and \
                    st.body[0].targets[0].id == st.orelse[0].targets[0].id:
                v = ast.IfExp(test=st.test, body=st.body[0].value, orelse=st.orelse[0].value)
                new = ast.Assign(targets=[ast.Name(id=st.body[0].targets[0].id, ctx=ast.Store())], value=ast.copy_location(v, st))
                block[i] = ast.fix_missing_locations(ast.copy_location(new, st))


def loopify_return_comp(node: ast.FunctionDef, acc: str = "__acc") -> ast.FunctionDef:
    """`return [E for a in A (if c) for b in B ...]`  ->  `acc = []; for a in A: (if c:) acc.extend([E for b in B ...]); return acc`
    (a copy; the function is returned unchanged when its body is not a single returned list comprehension)"""
    b = _body_wo_doc(node)
    if not (len(b) == 1 and isinstance(b[0], ast.Return) and isinstance(b[0].value, ast.ListComp)):
        return node
    lc = b[0].value
    g0 = lc.generators[0]
    if g0.is_async:
        return node
    new = copy.deepcopy(node)
    at = b[0]
    if len(lc.generators) > 1:
        inner = ast.ListComp(elt=copy.deepcopy(lc.elt), generators=copy.deepcopy(lc.generators[1:]))
        emit = ast.Expr(value=ast.Call(func=ast.Attribute(value=ast.Name(id=acc, ctx=ast.Load()), attr="extend", ctx=ast.Load()),
                                       args=[inner], keywords=[]))
    else:
        emit = ast.Expr(value=ast.Call(func=ast.Attribute(value=ast.Name(id=acc, ctx=ast.Load()), attr="append", ctx=ast.Load()),
                                       args=[copy.deepcopy(lc.elt)], keywords=[]))
    body = [emit]
    if g0.ifs:
        test = copy.deepcopy(g0.ifs[0]) if len(g0.ifs) == 1 else ast.BoolOp(op=ast.And(), values=copy.deepcopy(g0.ifs))
        body = [ast.If(test=test, body=[emit], orelse=[])]
    loop = ast.For(target=copy.deepcopy(g0.target), iter=copy.deepcopy(g0.iter), body=body, orelse=[])
    for t in ast.walk(loop.target):
        if isinstance(t, (ast.Name, ast.Tuple, ast.List)):
            t.ctx = ast.Store()
    init = ast.Assign(targets=[ast.Name(id=acc, ctx=ast.Store())], value=ast.List(elts=[], ctx=ast.Load()))
    ret = ast.Return(value=ast.Name(id=acc, ctx=ast.Load()))
    doc = [x for x in node.body if x not in b]
    new.body = copy.deepcopy(doc) + [ast.copy_location(x, at) for x in (init, loop, ret)]
    for x in new.body:
        for y in ast.walk(x):
            if not hasattr(y, "lineno") and isinstance(y, (ast.expr, ast.stmt)):
                ast.copy_location(y, at)
    ast.fix_missing_locations(new)
    return new


def unroll_boundary_pairs(fn):
    """for b, (lo, hi) in enumerate(zip(L, L[1:])) with L = [E(k) for k in range(R)] bound once
         ->   for b in range(R - 1): lo = E(b); hi = E(b + 1); ...
    (consecutive boundaries of a computed boundary list, each pair visited with its index).  Returns a new Fn."""
    import dataclasses
    node = copy.deepcopy(fn.node)
    for block in _blocks(node):
        for i, st in enumerate(block):
            if not (isinstance(st, ast.For) and isinstance(st.iter, ast.Call) and isinstance(st.iter.func, ast.Name) and st.iter.func.id == "enumerate" and
                    len(st.iter.args) == 1 and not st.iter.keywords and isinstance(st.target, ast.Tuple) and len(st.target.elts) == 2 and
                    isinstance(st.target.elts[0], ast.Name) and isinstance(st.target.elts[1], ast.Tuple) and len(st.target.elts[1].elts) == 2 and
                    all(isinstance(x, ast.Name) for x in st.target.elts[1].elts)):
                continue
            z = st.iter.args[0]
            if isinstance(z, ast.Call) and isinstance(z.func, ast.Name) and z.func.id == "zip" and len(z.args) == 2 and \
                    isinstance(z.args[0], ast.Subscript) and isinstance(z.args[0].value, ast.Name) and ast.unparse(z.args[0].slice) == ":-1":
                z = copy.copy(z)
                z.args = [z.args[0].value, z.args[1]]       # zip(L[:-1], L[1:]) is zip(L, L[1:])
            if not (isinstance(z, ast.Call) and isinstance(z.func, ast.Name) and z.func.id == "zip" and len(z.args) == 2 and
                    isinstance(z.args[0], ast.Name) and isinstance(z.args[1], ast.Subscript) and ast.unparse(z.args[1]) == f"{z.args[0].id}[1:]"):
                continue
            L = z.args[0].id
            ds = [(blk, j, x) for blk in _blocks(node) for j, x in enumerate(blk) if isinstance(x, ast.Assign) and len(x.targets) == 1 and
                  isinstance(x.targets[0], ast.Name) and x.targets[0].id == L]
            if len(ds) != 1:
                continue
            comp = ds[0][2].value
            if not (isinstance(comp, ast.ListComp) and len(comp.generators) == 1 and not comp.generators[0].ifs and
                    isinstance(comp.generators[0].target, ast.Name) and isinstance(comp.generators[0].iter, ast.Call) and
                    isinstance(comp.generators[0].iter.func, ast.Name) and comp.generators[0].iter.func.id == "range" and
                    len(comp.generators[0].iter.args) == 1):
                continue
            k = comp.generators[0].target.id
            R_ = comp.generators[0].iter.args[0]
            b = st.target.elts[0].id
            lo, hi = (x.id for x in st.target.elts[1].elts)
            e_lo = _Rename({k: ast.Name(id=b, ctx=ast.Load())}).visit(copy.deepcopy(comp.elt))
            e_hi = _Rename({k: ast.BinOp(left=ast.Name(id=b, ctx=ast.Load()), op=ast.Add(), right=ast.Constant(value=1))}).visit(copy.deepcopy(comp.elt))
            st.target = ast.Name(id=b, ctx=ast.Store())
            st.iter = ast.Call(func=ast.Name(id="range", ctx=ast.Load()),
                               args=[ast.BinOp(left=copy.deepcopy(R_), op=ast.Sub(), right=ast.Constant(value=1))], keywords=[])
            st.body = [ast.Assign(targets=[ast.Name(id=lo, ctx=ast.Store())], value=e_lo),
                       ast.Assign(targets=[ast.Name(id=hi, ctx=ast.Store())], value=e_hi)] + st.body
            ast.fix_missing_locations(ast.copy_location(st, st))
            for x in st.body[:2]:
                ast.copy_location(x, st)
                ast.fix_missing_locations(x)
    ast.fix_missing_locations(node)
    return dataclasses.replace(fn, node=node)


def with_roles(fn, roles):
    """a copy of the (normalised) function whose locals are renamed to the names of their ROLES.

    Several rules were written against the names the repository happens to use for its locals (`notes`, `den_max`, `bpm_ix`);
    renaming a local is the most ordinary behaviour-preserving edit there is.  A rule therefore declares the roles it talks
    about as (canonical name, predicate) pairs; the predicate sees every binding of a local — `pred(name, value, stmt[, function node])` with
    value = the assigned expression (None for loop / with / unpacking targets) and stmt the binding statement — and says whether
    that binding is the defining one for the role.  If exactly one local qualifies it is renamed to the canonical name
    throughout the function (unless that name is already taken by something else); roles are applied in order, so a later
    predicate may mention earlier canonical names.  Parameters keep their names (they are API).  Returns a new Fn; nothing is
    executed."""
    import dataclasses
    node = copy.deepcopy(fn.node)
    params = {a.arg for a in node.args.posonlyargs + node.args.args + node.args.kwonlyargs}
    for canon, pred in roles:
        cands = []
        for st in ast.walk(node):
            binds = []
            if isinstance(st, ast.Assign):
                for t in st.targets:
                    if isinstance(t, ast.Name):
                        binds.append((t.id, st.value))
                    elif isinstance(t, (ast.Tuple, ast.List)):
                        vs = st.value.elts if isinstance(st.value, (ast.Tuple, ast.List)) and len(st.value.elts) == len(t.elts) else [None] * len(t.elts)
                        for te, ve in zip(t.elts, vs):
                            if isinstance(te, ast.Name):
                                binds.append((te.id, ve))
            elif isinstance(st, ast.AnnAssign) and isinstance(st.target, ast.Name):
                binds.append((st.target.id, st.value))
            elif isinstance(st, ast.AugAssign) and isinstance(st.target, ast.Name):
                binds.append((st.target.id, st.value))
            elif isinstance(st, (ast.For, ast.comprehension)):
                for te in ast.walk(st.target):
                    if isinstance(te, ast.Name):
                        binds.append((te.id, None))
            for nm, val in binds:
                if nm in params:
                    continue
                try:
                    try:
                        ok = pred(nm, val, st, node)
                    except TypeError:
                        ok = pred(nm, val, st)
                except Exception:
                    ok = False
                if ok and nm not in cands:
                    cands.append(nm)
        if len(cands) != 1 or cands[0] == canon:
            continue
        taken = any(isinstance(n, ast.Name) and n.id == canon for n in ast.walk(node)) or canon in params
        if taken:
            continue
        old = cands[0]
        for n in ast.walk(node):
            if isinstance(n, ast.Name) and n.id == old:
                n.id = canon
    return dataclasses.replace(fn, node=node)


def string_expr(fn_node: ast.FunctionDef, e: ast.AST, _depth: int = 0) -> Optional[ast.JoinedStr]:
    """a string-building expression as ONE f-string, or None: f-strings, literals, `a + b`, `str(x)`, `sep.join(map(str, [a, b]))`
    / `sep.join(str(x) for x in [a, b])` / `sep.join([str(a), f"{b}"])` over a list display, and a local bound once to any of these
    (the list display as well) — the fields of a written line in the order and with the separators the text will have"""
    if _depth > 8:
        return None

    def once(name):
        ds = [n for n in ast.walk(fn_node) if isinstance(n, ast.Assign) and len(n.targets) == 1 and isinstance(n.targets[0], ast.Name) and n.targets[0].id == name]
        stores = [n for n in ast.walk(fn_node) if isinstance(n, ast.Name) and n.id == name and isinstance(n.ctx, (ast.Store, ast.Del))]
        muts = [n for n in ast.walk(fn_node) if isinstance(n, ast.Call) and isinstance(n.func, ast.Attribute) and isinstance(n.func.value, ast.Name) and
                n.func.value.id == name and n.func.attr in ("append", "extend", "insert", "pop", "remove", "sort", "reverse", "clear")]
        return ds[0].value if len(ds) == 1 and len(stores) == 1 and not muts else None

    def fv(x):
        return ast.FormattedValue(value=x, conversion=-1, format_spec=None)

    def items_of(a):
        """elements of a list display (possibly through a local bound once)"""
        if isinstance(a, ast.Name):
            a = once(a.id)
        if isinstance(a, (ast.List, ast.Tuple)) and not any(isinstance(x, ast.Starred) for x in a.elts):
            return list(a.elts)
        return None

    def is_str_fn(f):
        return isinstance(f, ast.Name) and f.id == "str"
    if isinstance(e, ast.Constant) and isinstance(e.value, str):
        return ast.JoinedStr(values=[e])
    if isinstance(e, ast.JoinedStr):
        vals: List[ast.AST] = []
        for v in e.values:
            if isinstance(v, ast.FormattedValue) and v.conversion == -1 and v.format_spec is None and isinstance(v.value, ast.Name):
                inner = once(v.value.id)
                sub = string_expr(fn_node, inner, _depth + 1) if inner is not None and isinstance(inner, (ast.JoinedStr, ast.BinOp, ast.Call)) else None
                if sub is not None:
                    vals.extend(sub.values)
                    continue
            vals.append(v)
        return ast.copy_location(ast.JoinedStr(values=vals), e)
    if isinstance(e, ast.Name):
        inner = once(e.id)
        return string_expr(fn_node, inner, _depth + 1) if inner is not None else None
    if isinstance(e, ast.BinOp) and isinstance(e.op, ast.Add):
        a, b = string_expr(fn_node, e.left, _depth + 1), string_expr(fn_node, e.right, _depth + 1)
        if a is None or b is None:
            return None
        return ast.copy_location(ast.JoinedStr(values=list(a.values) + list(b.values)), e)
    if isinstance(e, ast.Call) and is_str_fn(e.func) and len(e.args) == 1 and not e.keywords:
        return ast.copy_location(ast.JoinedStr(values=[fv(e.args[0])]), e)
    if isinstance(e, ast.Call) and isinstance(e.func, ast.Attribute) and e.func.attr == "join" and isinstance(e.func.value, ast.Constant) and \
            isinstance(e.func.value.value, str) and len(e.args) == 1 and not e.keywords:
        sep = e.func.value.value
        a = e.args[0]
        parts = None
        if isinstance(a, ast.Call) and isinstance(a.func, ast.Name) and a.func.id == "map" and len(a.args) == 2 and is_str_fn(a.args[0]):
            its = items_of(a.args[1])
            parts = [ast.JoinedStr(values=[fv(x)]) for x in its] if its is not None else None
        elif isinstance(a, (ast.GeneratorExp, ast.ListComp)) and len(a.generators) == 1 and not a.generators[0].ifs and \
                isinstance(a.generators[0].target, ast.Name) and isinstance(a.elt, ast.Call) and is_str_fn(a.elt.func) and len(a.elt.args) == 1 and \
                isinstance(a.elt.args[0], ast.Name) and a.elt.args[0].id == a.generators[0].target.id:
            its = items_of(a.generators[0].iter)
            parts = [ast.JoinedStr(values=[fv(x)]) for x in its] if its is not None else None
        else:
            its = items_of(a)
            if its is not None:
                parts = [string_expr(fn_node, x, _depth + 1) for x in its]
                if any(p is None for p in parts):
                    parts = None
        if parts is None:
            return None
        vals = []
        for i, p_ in enumerate(parts):
            if i:
                vals.append(ast.Constant(value=sep))
            vals.extend(p_.values)
        return ast.fix_missing_locations(ast.copy_location(ast.JoinedStr(values=vals), e))
    return None


def _expand_partials(node: ast.FunctionDef) -> bool:
    """`g = partial(f, *a, **k)` bound once; `g(x, **m)` is `f(*a, x, **k, **m)`"""
    changed = False
    for block in _blocks(node):
        for i, st in enumerate(block):
            if not (isinstance(st, ast.Assign) and len(st.targets) == 1 and isinstance(st.targets[0], ast.Name) and isinstance(st.value, ast.Call) and
                    ((isinstance(st.value.func, ast.Name) and st.value.func.id == "partial") or
                     (isinstance(st.value.func, ast.Attribute) and st.value.func.attr == "partial" and ast.unparse(st.value.func.value) == "functools")) and
                    st.value.args and not any(isinstance(a, ast.Starred) for a in st.value.args) and all(k.arg for k in st.value.keywords)):
                continue
            g = st.targets[0].id
            if sum(1 for n in ast.walk(node) if isinstance(n, ast.Name) and n.id == g and isinstance(n.ctx, ast.Store)) != 1:
                continue
            uses = [n for n in ast.walk(node) if isinstance(n, ast.Name) and n.id == g and isinstance(n.ctx, ast.Load)]
            calls = [n for n in ast.walk(node) if isinstance(n, ast.Call) and isinstance(n.func, ast.Name) and n.func.id == g]
            if not calls or len(calls) != len(uses):
                continue
            f, pa, pk = st.value.args[0], st.value.args[1:], st.value.keywords
            for c in calls:
                given = {k.arg for k in c.keywords}
                c.func = copy.deepcopy(f)
                c.args = [copy.deepcopy(a) for a in pa] + c.args
                c.keywords = [copy.deepcopy(k) for k in pk if k.arg not in given] + c.keywords
            del block[i]
            ast.fix_missing_locations(node)
            changed = True
            break
        if changed:
            break
    return changed


_MUTATORS = {"append", "extend", "insert", "pop", "remove", "sort", "reverse", "clear", "update", "add", "discard", "setdefault", "popitem"}


def _display_elems(node: ast.FunctionDef, e: ast.AST, depth: int = 0):
    """the elements of the display ``e`` — directly, or through a local bound once to one and never mutated — with starred parts
    that are themselves displays, or one-generator comprehensions over displays, spliced in: [0, *(c + 1 for c in cuts)] with
    cuts = [a, b] is [0, a + 1, b + 1].  (elements, line of the latest definition consulted) or None."""
    if depth > 4:
        return None
    line = 0
    if isinstance(e, ast.Name):
        stores = [n for n in ast.walk(node) if isinstance(n, ast.Name) and n.id == e.id and isinstance(n.ctx, (ast.Store, ast.Del))]
        defs = [n for n in ast.walk(node) if isinstance(n, ast.Assign) and len(n.targets) == 1 and isinstance(n.targets[0], ast.Name) and n.targets[0].id == e.id]
        if len(stores) != 1 or len(defs) != 1 or e.id in {a.arg for a in node.args.args + node.args.kwonlyargs}:
            return None
        for n in ast.walk(node):
            if isinstance(n, ast.Call) and isinstance(n.func, ast.Attribute) and isinstance(n.func.value, ast.Name) and n.func.value.id == e.id and \
                    n.func.attr in _MUTATORS:
                return None
            if isinstance(n, (ast.Subscript, ast.Attribute)) and isinstance(n.ctx, (ast.Store, ast.Del)) and isinstance(n.value, ast.Name) and n.value.id == e.id:
                return None
            if isinstance(n, ast.AugAssign) and isinstance(n.target, ast.Name) and n.target.id == e.id:
                return None
        line = defs[0].lineno
        e = defs[0].value
    if isinstance(e, (ast.ListComp, ast.GeneratorExp)) and len(e.generators) == 1 and not e.generators[0].ifs and isinstance(e.generators[0].target, ast.Name):
        src = _display_elems(node, e.generators[0].iter, depth + 1)
        if src is None:
            return None
        v = e.generators[0].target.id
        return [_Rename({v: x}).visit(copy.deepcopy(e.elt)) for x in src[0]], max(line, src[1])
    if not isinstance(e, (ast.List, ast.Tuple)):
        return None
    out = []
    for x in e.elts:
        if isinstance(x, ast.Starred):
            sub = _display_elems(node, x.value, depth + 1)
            if sub is None:
                return None
            out.extend(sub[0])
            line = max(line, sub[1])
        else:
            out.append(x)
    return (out, line) if len(out) <= 8 else None


def _unroll_zip_displays(node: ast.FunctionDef) -> bool:
    """`for a, b, c in zip(A, B, C)` with A, B, C displays of the same (small) length — possibly through locals bound once, with
    spliced parts — is its body once per position, the loop variables replaced by the elements.  The elements are expressions
    (they are read, not run): nothing they mention may be re-bound after the displays were built."""
    for block in _blocks(node):
        for i, st in enumerate(block):
            if not (isinstance(st, ast.For) and not st.orelse and isinstance(st.iter, ast.Call) and isinstance(st.iter.func, ast.Name) and
                    st.iter.func.id == "zip" and not st.iter.keywords and 2 <= len(st.iter.args) <= 6 and isinstance(st.target, ast.Tuple) and
                    len(st.target.elts) == len(st.iter.args) and all(isinstance(t, ast.Name) for t in st.target.elts) and len(st.body) <= 8 and
                    not any(isinstance(x, (ast.Break, ast.Continue)) for x in ast.walk(st))):
                continue
            cols = [_display_elems(node, a) for a in st.iter.args]
            if any(c is None for c in cols) or len({len(c[0]) for c in cols}) != 1:
                continue
            k = len(cols[0][0])
            if k * len(st.body) > 48:
                continue
            names = [t.id for t in st.target.elts]
            if any(isinstance(x, ast.Name) and isinstance(x.ctx, ast.Store) and x.id in names for b in st.body for x in ast.walk(b)):
                continue
            # free names of the elements are not re-bound between the displays and the end of the loop
            since = min(c[1] for c in cols if c[1]) if any(c[1] for c in cols) else st.lineno
            free = {x.id for c in cols for el in c[0] for x in ast.walk(el) if isinstance(x, ast.Name)}
            if any(isinstance(x, ast.Name) and isinstance(x.ctx, ast.Store) and x.id in free and since < getattr(x, "lineno", 0) <= getattr(st, "end_lineno", st.lineno)
                   for x in ast.walk(node)):
                continue
            # the loop variables are not read after the loop
            inside = sum(1 for x in ast.walk(st) if isinstance(x, ast.Name) and isinstance(x.ctx, ast.Load) and x.id in names)
            total = sum(1 for x in ast.walk(node) if isinstance(x, ast.Name) and isinstance(x.ctx, ast.Load) and x.id in names)
            if total > inside:
                continue
            unrolled = []
            for j in range(k):
                mp = {nm: cols[c][0][j] for c, nm in enumerate(names)}
                for b in st.body:
                    unrolled.append(ast.copy_location(_Rename(mp).visit(copy.deepcopy(b)), st))
            block[i:i + 1] = unrolled
            ast.fix_missing_locations(node)
            return True
    return False


class _MapUnbound(ast.NodeTransformer):
    """map(str.strip, X) is (v.strip() for v in X): an unbound str / bytes method mapped over one iterable"""
    n_ = 0

    def visit_Call(self, n):
        n = self.generic_visit(n)
        # islice(X, k, None) over a sequence is X[k:] (the elements after the first k, in order)
        if ast.unparse(n.func) in ("islice", "itertools.islice") and len(n.args) == 3 and not n.keywords and _is_path(n.args[0]) and \
                isinstance(n.args[1], ast.Constant) and isinstance(n.args[1].value, int) and n.args[1].value >= 0 and \
                isinstance(n.args[2], ast.Constant) and n.args[2].value is None:
            return ast.copy_location(ast.Subscript(value=n.args[0], slice=ast.Slice(lower=n.args[1], upper=None, step=None), ctx=ast.Load()), n)
        if isinstance(n.func, ast.Name) and n.func.id == "map" and len(n.args) == 2 and not n.keywords and isinstance(n.args[0], ast.Name) and \
                n.args[0].id in getattr(self, "partial_names", ()):
            # map(g, X) with g = partial(F, ..) bound in this function: (g(v) for v in X) — the partial is then expanded at the call
            _MapUnbound.n_ += 1
            v = f"__m{_MapUnbound.n_}"
            elt = ast.Call(func=ast.Name(id=n.args[0].id, ctx=ast.Load()), args=[ast.Name(id=v, ctx=ast.Load())], keywords=[])
            g = ast.GeneratorExp(elt=elt, generators=[ast.comprehension(target=ast.Name(id=v, ctx=ast.Store()), iter=n.args[1], ifs=[], is_async=0)])
            return ast.fix_missing_locations(ast.copy_location(g, n))
        if isinstance(n.func, ast.Name) and n.func.id == "map" and len(n.args) == 2 and not n.keywords and isinstance(n.args[0], ast.Attribute) and \
                isinstance(n.args[0].value, ast.Name) and n.args[0].value.id in ("str", "bytes") and not n.args[0].attr.startswith("_"):
            _MapUnbound.n_ += 1
            v = f"__m{_MapUnbound.n_}"
            elt = ast.Call(func=ast.Attribute(value=ast.Name(id=v, ctx=ast.Load()), attr=n.args[0].attr, ctx=ast.Load()), args=[], keywords=[])
            g = ast.GeneratorExp(elt=elt, generators=[ast.comprehension(target=ast.Name(id=v, ctx=ast.Store()), iter=n.args[1], ifs=[], is_async=0)])
            return ast.fix_missing_locations(ast.copy_location(g, n))
        return n


def _bool_buckets(node: ast.FunctionDef) -> bool:
    """D = defaultdict(list); D[<test>].append(x); .. D[True] .. D[False] ..   is two lists filled under `if <test>: .. else: ..`:
    a dict keyed by a truth value is a pair of buckets.  Only when every use of D is D[True] / D[False] or such an append."""
    for block in _blocks(node):
        for i, st in enumerate(block):
            tgt = st.targets[0] if isinstance(st, ast.Assign) and len(st.targets) == 1 else (st.target if isinstance(st, ast.AnnAssign) and st.value is not None else None)
            v = getattr(st, "value", None)
            if not (isinstance(tgt, ast.Name) and isinstance(v, ast.Call) and ast.unparse(v.func) in ("defaultdict", "collections.defaultdict") and
                    len(v.args) == 1 and not v.keywords and ast.unparse(v.args[0]) == "list"):
                continue
            d = tgt.id
            if sum(1 for n in ast.walk(node) if isinstance(n, ast.Name) and n.id == d and isinstance(n.ctx, ast.Store)) != 1:
                continue
            parents = {}
            for n in ast.walk(node):
                for ch in ast.iter_child_nodes(n):
                    parents[id(ch)] = n
            uses = [n for n in ast.walk(node) if isinstance(n, ast.Name) and n.id == d and isinstance(n.ctx, ast.Load)]
            consts, fills = [], []
            ok = bool(uses)
            for u in uses:
                sub = parents.get(id(u))
                if not (isinstance(sub, ast.Subscript) and sub.value is u and isinstance(sub.ctx, ast.Load)):
                    ok = False
                    break
                if isinstance(sub.slice, ast.Constant) and isinstance(sub.slice.value, bool):
                    consts.append(sub)
                    continue
                att = parents.get(id(sub))
                call = parents.get(id(att))
                ex = parents.get(id(call))
                if isinstance(att, ast.Attribute) and att.attr == "append" and isinstance(call, ast.Call) and call.func is att and len(call.args) == 1 and \
                        not call.keywords and isinstance(ex, ast.Expr) and isinstance(sub.slice, (ast.Compare, ast.BoolOp, ast.UnaryOp)) and \
                        (not isinstance(sub.slice, ast.UnaryOp) or isinstance(sub.slice.op, ast.Not)):
                    fills.append((ex, sub, call))
                else:
                    ok = False
                    break
            if not ok or not fills:
                continue
            t_, f_ = f"{d}__True", f"{d}__False"
            for sub in consts:
                sub_parent = parents[id(sub)]
                new = ast.copy_location(ast.Name(id=t_ if sub.slice.value else f_, ctx=ast.Load()), sub)
                for fld, val in ast.iter_fields(sub_parent):
                    if val is sub:
                        setattr(sub_parent, fld, new)
                    elif isinstance(val, list):
                        for k_, x in enumerate(val):
                            if x is sub:
                                val[k_] = new
                for kw in getattr(sub_parent, "keywords", []) or []:
                    if kw.value is sub:
                        kw.value = new
            for ex, sub, call in fills:
                def app(nm):
                    return ast.Expr(value=ast.Call(func=ast.Attribute(value=ast.Name(id=nm, ctx=ast.Load()), attr="append", ctx=ast.Load()),
                                                   args=[copy.deepcopy(call.args[0])], keywords=[]))
                new = ast.copy_location(ast.If(test=sub.slice, body=[app(t_)], orelse=[app(f_)]), ex)
                for b2 in _blocks(node):
                    for k_, x in enumerate(b2):
                        if x is ex:
                            b2[k_] = new
            mk = lambda nm: ast.copy_location(ast.Assign(targets=[ast.Name(id=nm, ctx=ast.Store())], value=ast.List(elts=[], ctx=ast.Load())), st)   # noqa: E731
            block[i:i + 1] = [mk(t_), mk(f_)]
            ast.fix_missing_locations(node)
            return True
    return False


def _copy_takes_param_name(node: ast.FunctionDef) -> bool:
    """`out = p.deepcopy()` (or deepcopy(p)) at the top level, `out` bound there only, the parameter `p` never re-bound and after that
    statement only consulted for class look-ups (`type(p.hits)`, `p.hits.__class__`): the work is done on the copy under a new
    name.  It is read as the re-binding `p = p.deepcopy()` — every rule identifies "the chart being built" by the parameter."""
    params = [a.arg for a in node.args.posonlyargs + node.args.args + node.args.kwonlyargs]
    stores = {}
    for n in ast.walk(node):
        if isinstance(n, ast.Name) and isinstance(n.ctx, (ast.Store, ast.Del)):
            stores[n.id] = stores.get(n.id, 0) + 1
    for i, st in enumerate(node.body):
        if not (isinstance(st, ast.Assign) and len(st.targets) == 1 and isinstance(st.targets[0], ast.Name) and isinstance(st.value, ast.Call)):
            continue
        x, v = st.targets[0].id, st.value
        src = None
        if isinstance(v.func, ast.Attribute) and v.func.attr == "deepcopy" and isinstance(v.func.value, ast.Name) and not v.args:
            src = v.func.value.id
        elif ast.unparse(v.func) in ("deepcopy", "copy.deepcopy") and len(v.args) == 1 and isinstance(v.args[0], ast.Name):
            src = v.args[0].id
        if src not in params or stores.get(src) or stores.get(x) != 1 or x in params:
            continue
        # uses of the parameter after the copy: class look-ups only
        parents = {}
        for later in node.body[i + 1:]:
            for a_ in ast.walk(later):
                for ch in ast.iter_child_nodes(a_):
                    parents[id(ch)] = a_
        ok = True
        for later in node.body[i + 1:]:
            for n in ast.walk(later):
                if isinstance(n, ast.Name) and n.id == src:
                    att = parents.get(id(n))
                    up = parents.get(id(att)) if isinstance(att, ast.Attribute) else None
                    cls_lookup = (isinstance(up, ast.Call) and isinstance(up.func, ast.Name) and up.func.id == "type" and up.args and up.args[0] is att) or \
                        (isinstance(up, ast.Attribute) and up.attr == "__class__")
                    if not cls_lookup:
                        ok = False
        if not ok:
            continue
        for n in ast.walk(node):
            if isinstance(n, ast.Name) and n.id == x:
                n.id = src
        return True
    return False


def _bool_pair_buckets(node: ast.FunctionDef) -> bool:
    """`a, b = pair = [], []` (or `pair = a, b = [], []`) with `pair` used only as `pair[<test>].append(x)`: index False is `a`, index
    True is `b` — the append reads as `if <test>: b.append(x) else: a.append(x)`"""
    for block in _blocks(node):
        for i, st in enumerate(block):
            if not (isinstance(st, ast.Assign) and len(st.targets) == 2 and isinstance(st.value, (ast.Tuple, ast.List)) and len(st.value.elts) == 2 and
                    all(isinstance(x, ast.List) and not x.elts for x in st.value.elts)):
                continue
            tup = next((t for t in st.targets if isinstance(t, (ast.Tuple, ast.List)) and len(t.elts) == 2 and all(isinstance(x, ast.Name) for x in t.elts)), None)
            nm = next((t for t in st.targets if isinstance(t, ast.Name)), None)
            if tup is None or nm is None:
                continue
            p = nm.id
            a, b = tup.elts[0].id, tup.elts[1].id
            parents = {}
            for n in ast.walk(node):
                for ch in ast.iter_child_nodes(n):
                    parents[id(ch)] = n
            uses = [n for n in ast.walk(node) if isinstance(n, ast.Name) and n.id == p and isinstance(n.ctx, ast.Load)]
            fills = []
            ok = bool(uses)
            for u in uses:
                sub = parents.get(id(u))
                att = parents.get(id(sub))
                call = parents.get(id(att))
                ex = parents.get(id(call))
                if isinstance(sub, ast.Subscript) and sub.value is u and isinstance(sub.slice, ast.Call) and isinstance(sub.slice.func, ast.Name) and \
                        sub.slice.func.id == "bool" and len(sub.slice.args) == 1 and not sub.slice.keywords:
                    sub.slice = sub.slice.args[0]          # pair[bool(x)]: the truth of x
                    truthy = True
                else:
                    truthy = False
                if isinstance(sub, ast.Subscript) and sub.value is u and (truthy or isinstance(sub.slice, (ast.Compare, ast.BoolOp, ast.UnaryOp))) and \
                        isinstance(att, ast.Attribute) and att.attr == "append" and isinstance(call, ast.Call) and call.func is att and \
                        len(call.args) == 1 and isinstance(ex, ast.Expr):
                    fills.append((ex, sub, call))
                else:
                    ok = False
            if not ok:
                continue
            for ex, sub, call in fills:
                def app(name_):
                    return ast.Expr(value=ast.Call(func=ast.Attribute(value=ast.Name(id=name_, ctx=ast.Load()), attr="append", ctx=ast.Load()),
                                                   args=[copy.deepcopy(call.args[0])], keywords=[]))
                new = ast.copy_location(ast.If(test=sub.slice, body=[app(b)], orelse=[app(a)]), ex)
                for b2 in _blocks(node):
                    for k_, x in enumerate(b2):
                        if x is ex:
                            b2[k_] = new
            block[i] = ast.copy_location(ast.Assign(targets=[tup], value=st.value), st)
            ast.fix_missing_locations(node)
            return True
    return False


def _cond_iterables(node: ast.FunctionDef) -> bool:
    """`for v in (A if c else ())` — directly or through a local bound once and used only there — is `if c: for v in A`: a loop over
    nothing is no loop"""
    changed = False
    for block in _blocks(node):
        for i, st in enumerate(block):
            if not (isinstance(st, ast.For) and not st.orelse):
                continue
            it = st.iter
            drop = None
            if isinstance(it, ast.Name):
                defs = [(b2, k) for b2 in _blocks(node) for k, x in enumerate(b2) if isinstance(x, ast.Assign) and len(x.targets) == 1 and
                        isinstance(x.targets[0], ast.Name) and x.targets[0].id == it.id]
                uses = [n for n in ast.walk(node) if isinstance(n, ast.Name) and n.id == it.id and isinstance(n.ctx, ast.Load)]
                if len(defs) == 1 and len(uses) == 1 and defs[0][0] is block and defs[0][1] < i:
                    drop = defs[0]
                    it = block[defs[0][1]].value
            if not isinstance(it, ast.IfExp):
                continue
            empty = lambda e: isinstance(e, (ast.Tuple, ast.List)) and not e.elts      # noqa: E731
            if empty(it.orelse) and not empty(it.body):
                test, seq = it.test, it.body
            elif empty(it.body) and not empty(it.orelse):
                test, seq = ast.UnaryOp(op=ast.Not(), operand=it.test), it.orelse
            else:
                continue
            if drop is not None:
                # the condition is evaluated where the local was bound: nothing in between may re-bind what it reads
                names = {n.id for n in ast.walk(test) if isinstance(n, ast.Name)}
                between = block[drop[1] + 1:i]
                if any(isinstance(n, ast.Name) and n.id in names and isinstance(n.ctx, ast.Store) for b_ in between for n in ast.walk(b_)):
                    continue
            st.iter = seq
            guard = ast.copy_location(ast.If(test=test, body=[st], orelse=[]), st)
            block[i] = guard
            if drop is not None:
                del block[drop[1]]
            ast.fix_missing_locations(node)
            changed = True
            break
        if changed:
            break
    return changed


def _zip_stack_to_cursor(node: ast.FunctionDef) -> bool:
    """`S = list(zip(A, B))` used only as a stack that is read at its top and popped — `S[-1][i]`, `x, y = S[-1]`, `S.pop()` as a
    statement — is a cursor `k = -1` into the parallel tables: `S[-1][0]` is `A[k]`, `S[-1][1]` is `B[k]`, `S.pop()` is `k -= 1`
    (A and B of equal length: one entry per tempo change each, C10.R9).  Both components come from one tuple, i.e. from ONE index."""
    changed = False
    for block in _blocks(node):
        for i, st in enumerate(block):
            if not (isinstance(st, ast.Assign) and len(st.targets) == 1 and isinstance(st.targets[0], ast.Name)):
                continue
            v = st.value
            if isinstance(v, ast.Call) and isinstance(v.func, ast.Name) and v.func.id == "list" and len(v.args) == 1:
                v = v.args[0]
            else:
                continue
            if not (isinstance(v, ast.Call) and isinstance(v.func, ast.Name) and v.func.id == "zip" and len(v.args) >= 2 and not v.keywords and
                    all(_is_path(a) or (isinstance(a, ast.Call) and not a.args and _is_path(a.func)) for a in v.args)):
                continue
            S = st.targets[0].id
            if sum(1 for n in ast.walk(node) if isinstance(n, ast.Name) and n.id == S and isinstance(n.ctx, ast.Store)) != 1:
                continue
            tables = list(v.args)
            uses = [n for n in ast.walk(node) if isinstance(n, ast.Name) and n.id == S and isinstance(n.ctx, ast.Load)]
            k = f"__top_{S}"
            kn = lambda: ast.Name(id=k, ctx=ast.Load())    # noqa: E731
            ok = [True]
            seen = [0]

            def is_top(e):
                return isinstance(e, ast.Subscript) and isinstance(e.value, ast.Name) and e.value.id == S and \
                    isinstance(e.slice, ast.UnaryOp) and isinstance(e.slice.op, ast.USub) and isinstance(e.slice.operand, ast.Constant) and \
                    e.slice.operand.value == 1 and isinstance(e.ctx, ast.Load)

            class Rw(ast.NodeTransformer):
                def visit_Subscript(self, n):
                    if is_top(n.value) and isinstance(n.slice, ast.Constant) and isinstance(n.slice.value, int) and 0 <= n.slice.value < len(tables) \
                            and isinstance(n.ctx, ast.Load):
                        seen[0] += 1
                        return ast.copy_location(ast.Subscript(value=copy.deepcopy(tables[n.slice.value]), slice=kn(), ctx=ast.Load()), n)
                    return self.generic_visit(n)

                def visit_Assign(self, n):
                    if is_top(n.value) and len(n.targets) == 1 and isinstance(n.targets[0], ast.Tuple) and len(n.targets[0].elts) == len(tables) and \
                            all(isinstance(t, ast.Name) for t in n.targets[0].elts):
                        seen[0] += 1
                        return [ast.copy_location(ast.Assign(targets=[ast.Name(id=t.id, ctx=ast.Store())],
                                                             value=ast.Subscript(value=copy.deepcopy(tb), slice=kn(), ctx=ast.Load())), n)
                                for t, tb in zip(n.targets[0].elts, tables)]
                    return self.generic_visit(n)

                def visit_Expr(self, n):
                    c = n.value
                    if isinstance(c, ast.Call) and isinstance(c.func, ast.Attribute) and c.func.attr == "pop" and isinstance(c.func.value, ast.Name) and \
                            c.func.value.id == S and not c.args and not c.keywords:
                        seen[0] += 1
                        return ast.copy_location(ast.AugAssign(target=ast.Name(id=k, ctx=ast.Store()), op=ast.Sub(), value=ast.Constant(value=1)), n)
                    return self.generic_visit(n)
            trial = copy.deepcopy(node)
            # (work on a copy first: every use of S must be one of the three forms)
            tb = None
            for b2 in _blocks(trial):
                for s2 in b2:
                    if isinstance(s2, ast.Assign) and len(s2.targets) == 1 and isinstance(s2.targets[0], ast.Name) and s2.targets[0].id == S:
                        tb = (b2, s2)
            if tb is None:
                continue
            rest_ix = tb[0].index(tb[1])
            new_rest = []
            for s2 in tb[0][rest_ix + 1:]:
                r = Rw().visit(s2)
                new_rest.extend(r if isinstance(r, list) else [r])
            left = [n for s2 in new_rest for n in ast.walk(s2) if isinstance(n, ast.Name) and n.id == S]
            if left or seen[0] != len(uses) or not uses:
                continue
            init = ast.copy_location(ast.Assign(targets=[ast.Name(id=k, ctx=ast.Store())], value=ast.UnaryOp(op=ast.USub(), operand=ast.Constant(value=1))), st)
            block[i:] = [init] + new_rest
            ast.fix_missing_locations(node)
            changed = True
            break
        if changed:
            break
    return changed


def _carried_to_pairs(node: ast.FunctionDef) -> bool:
    """loop-carried "previous element" variables made explicit.
    (1) `P = X[0]` … `for C in X[1:]: <body>; P = C; <rest>` (P bound nowhere else, not read after the loop): the body before the
        rebind sees P = the element before C — `for P, C in zip(X[:-1], X[1:])`, the rebind dropped, P read after it renamed C.
    (2) `Q = E0` … `L = [Q]` … in the loop `Q = E` … `L.append(Q)` (the only append to L, Q bound nowhere else): wherever the loop
        body reads Q before rebinding it, Q is the last element appended so far — `L[-1]`; `Q = E; L.append(Q)` is `L.append(E)`."""
    changed = False
    top = node.body
    for li, lp in enumerate(top):
        if not (isinstance(lp, ast.For) and isinstance(lp.target, ast.Name) and not lp.orelse and isinstance(lp.iter, ast.Subscript) and
                isinstance(lp.iter.slice, ast.Slice) and ast.unparse(lp.iter.slice) == "1:" and _is_path(lp.iter.value)):
            continue
        X = ast.unparse(lp.iter.value)
        C = lp.target.id
        after = top[li + 1:]
        before = top[:li]
        # (1)
        for bi, st in enumerate(lp.body):
            if not (isinstance(st, ast.Assign) and len(st.targets) == 1 and isinstance(st.targets[0], ast.Name) and isinstance(st.value, ast.Name) and
                    st.value.id == C):
                continue
            P = st.targets[0].id
            stores = [n for n in ast.walk(node) if isinstance(n, ast.Name) and n.id == P and isinstance(n.ctx, (ast.Store, ast.Del))]
            inits = [b for b in before if isinstance(b, ast.Assign) and len(b.targets) == 1 and isinstance(b.targets[0], ast.Name) and b.targets[0].id == P]
            if len(stores) != 2 or len(inits) != 1 or ast.unparse(inits[0].value) != f"{X}[0]":
                continue
            if any(isinstance(n, ast.Name) and n.id == P for a in after for n in ast.walk(a)):
                continue
            if any(isinstance(n, ast.Name) and n.id == C and isinstance(n.ctx, ast.Store) for b in lp.body for n in ast.walk(b)):
                continue
            rest = [_Rename({P: ast.Name(id=C, ctx=ast.Load())}).visit(x) for x in lp.body[bi + 1:]]
            lp.body = lp.body[:bi] + rest or [ast.Pass()]
            sl = lambda lo, hi: ast.Subscript(value=copy.deepcopy(lp.iter.value), slice=ast.Slice(lower=lo, upper=hi, step=None), ctx=ast.Load())   # noqa: E731
            lp.target = ast.Tuple(elts=[ast.Name(id=P, ctx=ast.Store()), ast.Name(id=C, ctx=ast.Store())], ctx=ast.Store())
            lp.iter = ast.Call(func=ast.Name(id="zip", ctx=ast.Load()),
                               args=[sl(None, ast.UnaryOp(op=ast.USub(), operand=ast.Constant(value=1))), sl(ast.Constant(value=1), None)], keywords=[])
            ast.fix_missing_locations(node)
            changed = True
            break
        # (2)
        for bi, st in enumerate(lp.body):
            if not (isinstance(st, ast.Assign) and len(st.targets) == 1 and isinstance(st.targets[0], ast.Name)):
                continue
            Q = st.targets[0].id
            stores = [n for n in ast.walk(node) if isinstance(n, ast.Name) and n.id == Q and isinstance(n.ctx, (ast.Store, ast.Del))]
            inits = [b for b in before if isinstance(b, ast.Assign) and len(b.targets) == 1 and isinstance(b.targets[0], ast.Name) and b.targets[0].id == Q]
            if len(stores) != 2 or len(inits) != 1:
                continue
            # the list that starts as [Q] and receives Q right after each rebind
            Ls = [b for b in before if isinstance(b, (ast.Assign, ast.AnnAssign)) and isinstance(getattr(b, "value", None), ast.List) and
                  len(b.value.elts) == 1 and isinstance(b.value.elts[0], ast.Name) and b.value.elts[0].id == Q and
                  before.index(b) > before.index(inits[0])]
            if len(Ls) != 1:
                continue
            tgt = Ls[0].targets[0] if isinstance(Ls[0], ast.Assign) else Ls[0].target
            if not isinstance(tgt, ast.Name):
                continue
            L = tgt.id
            apps = [n for n in ast.walk(node) if isinstance(n, ast.Call) and isinstance(n.func, ast.Attribute) and n.func.attr in ("append", "extend", "insert", "pop", "remove", "clear", "sort", "reverse")
                    and isinstance(n.func.value, ast.Name) and n.func.value.id == L]
            nxt = lp.body[bi + 1] if bi + 1 < len(lp.body) else None
            if not (len(apps) == 1 and isinstance(nxt, ast.Expr) and nxt.value is apps[0] and apps[0].func.attr == "append" and
                    len(apps[0].args) == 1 and isinstance(apps[0].args[0], ast.Name) and apps[0].args[0].id == Q):
                continue
            if any(isinstance(n, ast.Name) and n.id == L and isinstance(n.ctx, ast.Store) for x in top[before.index(Ls[0]) + 1:] for n in ast.walk(x)):
                continue
            reads_after = [n for x in lp.body[bi + 2:] + after for n in ast.walk(x) if isinstance(n, ast.Name) and n.id == Q]
            if reads_after or any(isinstance(n, ast.Name) and n.id == Q for n in ast.walk(st.value)):
                continue
            last = ast.Subscript(value=ast.Name(id=L, ctx=ast.Load()), slice=ast.UnaryOp(op=ast.USub(), operand=ast.Constant(value=1)), ctx=ast.Load())
            head = [_Rename({Q: last}).visit(x) for x in lp.body[:bi]]
            apps[0].args[0] = st.value
            lp.body = head + lp.body[bi + 1:]
            ast.fix_missing_locations(node)
            changed = True
            break
    return changed


def _ctor_kwargs_to_stores(M, fn, node: ast.FunctionDef) -> None:
    """`x = C(a=v, b=w)` / `return C(a=v, b=w)` for a dataclass C of the repository (no __post_init__ in its hierarchy, every keyword
    a field) is `x = C(); x.a = v; x.b = w`: an object built with its final values reads like one built empty and filled"""
    def target_class(call):
        if not isinstance(call, ast.Call) or call.args or not call.keywords or any(k.arg is None for k in call.keywords):
            return None
        r = M.resolve_expr(fn.mod, call.func, fn.cls) if isinstance(call.func, (ast.Name, ast.Attribute)) else None
        if not r or r[0] != "class":
            return None
        c = r[1] if isinstance(r[1], str) else getattr(r[1], "qual", None)
        if c not in M.classes:
            return None
        fields = {f[0] for f in M.dataclass_fields(c)}
        if not fields or not {k.arg for k in call.keywords} <= fields:
            return None
        decided = False
        for k in M.mro(c):
            if k not in M.classes:
                continue
            own = {b.name for b in M.classes[k].node.body if isinstance(b, ast.FunctionDef)}
            if own & {"__post_init__", "__setattr__"}:
                return None
            if not decided:
                # the __init__ that runs: the first class of the MRO that writes its own or is decorated with @dataclass (generated)
                if "__init__" in own:
                    return None
                if any(ast.unparse(d).split("(")[0].split(".")[-1] == "dataclass" for d in M.classes[k].node.decorator_list):
                    decided = True
        return c if decided else None
    for block in _blocks(node):
        i = 0
        while i < len(block):
            st = block[i]
            call = st.value if isinstance(st, (ast.Assign, ast.Return)) else None
            if call is not None and target_class(call) is not None and \
                    (isinstance(st, ast.Return) or (len(st.targets) == 1 and isinstance(st.targets[0], ast.Name))):
                name = st.targets[0].id if isinstance(st, ast.Assign) else f"__new_{next(_counter)}"
                if any(isinstance(n, ast.Name) and n.id == name for k in call.keywords for n in ast.walk(k.value)):
                    i += 1
                    continue
                new: List[ast.stmt] = [ast.copy_location(ast.Assign(targets=[ast.Name(id=name, ctx=ast.Store())],
                                                                    value=ast.copy_location(ast.Call(func=call.func, args=[], keywords=[]), call)), st)]
                for k in call.keywords:
                    new.append(ast.copy_location(ast.Assign(targets=[ast.Attribute(value=ast.Name(id=name, ctx=ast.Load()), attr=k.arg, ctx=ast.Store())],
                                                            value=k.value), k.value))
                if isinstance(st, ast.Return):
                    new.append(ast.copy_location(ast.Return(value=ast.Name(id=name, ctx=ast.Load())), st))
                block[i:i + 1] = new
                i += len(new)
                continue
            i += 1
    ast.fix_missing_locations(node)


def _fuse_tuple_buffers(node: ast.FunctionDef) -> bool:
    """`B = []` … `B.append((x, y, z))` inside a loop … `T = [elt for a, b, c in B if cond]` after it (B used nowhere else): the
    consumers are moved to the producer — `T = []` where B was created, `if cond[x,y,z]: T.append(elt[x,y,z])` where the tuple was
    appended.  Same elements in the same order (elt / cond read only the tuple's components and names the function never binds), so
    a row that is first parked in an intermediate list and split afterwards reads like a row that is appended directly."""
    top = node.body
    changed = False
    assigned = {n.id for n in ast.walk(node) if isinstance(n, ast.Name) and isinstance(n.ctx, (ast.Store, ast.Del))} | \
        {a.arg for a in ast.walk(node) if isinstance(a, ast.arg)}
    for i, st in enumerate(list(top)):
        if not (isinstance(st, ast.Assign) and len(st.targets) == 1 and isinstance(st.targets[0], ast.Name) and
                isinstance(st.value, ast.List) and not st.value.elts):
            continue
        B = st.targets[0].id
        uses = [n for n in ast.walk(node) if isinstance(n, ast.Name) and n.id == B and n is not st.targets[0]]
        appends = [n for n in ast.walk(node) if isinstance(n, ast.Expr) and isinstance(n.value, ast.Call) and
                   isinstance(n.value.func, ast.Attribute) and n.value.func.attr == "append" and isinstance(n.value.func.value, ast.Name) and
                   n.value.func.value.id == B and len(n.value.args) == 1 and isinstance(n.value.args[0], ast.Tuple)]
        consumers = [c for c in top[i + 1:] if isinstance(c, ast.Assign) and len(c.targets) == 1 and isinstance(c.targets[0], ast.Name) and
                     isinstance(c.value, ast.ListComp) and len(c.value.generators) == 1 and
                     isinstance(c.value.generators[0].iter, ast.Name) and c.value.generators[0].iter.id == B and
                     isinstance(c.value.generators[0].target, ast.Tuple) and
                     all(isinstance(e, ast.Name) for e in c.value.generators[0].target.elts)]
        if len(appends) != 1 or not consumers or len(uses) != len(appends) + len(consumers):
            continue
        tup = appends[0].value.args[0]
        if any(len(c.value.generators[0].target.elts) != len(tup.elts) for c in consumers) or \
                not all(isinstance(e, (ast.Name, ast.Constant)) for e in tup.elts):
            continue
        # the producer is inside a loop that ends before the first consumer; consumers' targets are bound nowhere else
        loop_ix = next((k for k, t_ in enumerate(top) if any(x is appends[0] for x in ast.walk(t_))), None)
        first_c = min(top.index(c) for c in consumers)
        if loop_ix is None or not (i < loop_ix < first_c) or not isinstance(top[loop_ix], (ast.For, ast.While)):
            continue
        ok = True
        for c in consumers:
            T = c.targets[0].id
            if sum(1 for n in ast.walk(node) if isinstance(n, ast.Name) and n.id == T and isinstance(n.ctx, ast.Store)) != 1:
                ok = False
            if any(isinstance(n, ast.Name) and n.id == T for t_ in top[:top.index(c)] for n in ast.walk(t_)):
                ok = False
            tn = {e.id for e in c.value.generators[0].target.elts}
            for part in [c.value.elt] + list(c.value.generators[0].ifs):
                for n in ast.walk(part):
                    if isinstance(n, ast.Name) and n.id not in tn and n.id in assigned:
                        ok = False
        if not ok:
            continue
        new_stmts: List[ast.stmt] = []
        for c in consumers:
            ren = {t.id: e for t, e in zip(c.value.generators[0].target.elts, tup.elts)}
            elt = _Rename(ren).visit(copy.deepcopy(c.value.elt))
            app = ast.Expr(value=ast.Call(func=ast.Attribute(value=ast.Name(id=c.targets[0].id, ctx=ast.Load()), attr="append", ctx=ast.Load()),
                                          args=[elt], keywords=[]))
            conds = [_Rename(ren).visit(copy.deepcopy(t)) for t in c.value.generators[0].ifs]
            if conds:
                test = conds[0] if len(conds) == 1 else ast.BoolOp(op=ast.And(), values=conds)
                app = ast.If(test=test, body=[app], orelse=[])
            new_stmts.append(ast.copy_location(app, appends[0]))

        class Rep(ast.NodeTransformer):
            def visit_Expr(self, n):
                if n is appends[0]:
                    return new_stmts
                return n
        top[loop_ix] = Rep().visit(top[loop_ix])
        inits = [ast.copy_location(ast.Assign(targets=[ast.Name(id=c.targets[0].id, ctx=ast.Store())], value=ast.List(elts=[], ctx=ast.Load())), st)
                 for c in consumers]
        for c in consumers:
            top.remove(c)
        top[i:i + 1] = inits
        ast.fix_missing_locations(node)
        changed = True
        break
    return changed


def normalise(M, fn, subst: bool = False, guards: bool = False, keep=(), comps: bool = False, ifexp: bool = False, closures: bool = False, ssa: bool = False,
              ctor: bool = False) -> ast.FunctionDef:
    """a normalised deep copy of fn.node (see module docstring)"""
    node = copy.deepcopy(fn.node)
    for _ in range(4):
        changed: List[str] = []
        locs = _locals_of(node)
        node.body = _inline_gen_loops(M, fn, node.body, locs, changed)
        node.body = _inline_block(M, fn, node.body, locs, changed, 0)
        _expand_row_tables(M, fn, node, changed)
        node.body = _unroll_block(M, fn, node.body, changed, node)
        node.body = _expand_dispatch(M, fn, node, node.body, changed)
        node.body = _fold_const_ifs(node.body)
        node = _UnrollComps(M, fn, node).generic_visit(node)
        node = _AttrCalls().generic_visit(node) if True else node
        if _unroll_zip_displays(node):
            changed.append("zip-displays")
        if not changed:
            break
    mu_ = _MapUnbound()
    mu_.partial_names = {st.targets[0].id for st in ast.walk(node) if isinstance(st, ast.Assign) and len(st.targets) == 1 and isinstance(st.targets[0], ast.Name) and
                         isinstance(st.value, ast.Call) and ast.unparse(st.value.func) in ("partial", "functools.partial")}
    node = mu_.visit(node)
    _copy_takes_param_name(node)
    for _ in range(3):
        if not _bool_buckets(node):
            break
    for _ in range(3):
        if not _bool_pair_buckets(node):
            break
    for _ in range(3):
        if not _fuse_tuple_buffers(node):
            break
    for _ in range(4):
        if not _cond_iterables(node):
            break
    for _ in range(4):
        if not _expand_partials(node):
            break
    for _ in range(3):
        if not _zip_stack_to_cursor(node):
            break
    for _ in range(4):
        if not _carried_to_pairs(node):
            break
    if guards:
        node.body = _guards_to_else(node.body)
    if ifexp:
        _if_to_ifexp(node)
    if comps:
        _split_tuple_assigns(node)
        _loops_to_comps(node)
    if subst or closures:
        _inline_closures(node, [])
    if subst:
        _split_tuple_assigns(node)
        if ssa:
            _expand_unpack(node)
            _version_rebinds(node)
        _forward_subst(node, set(keep), alias_only=(subst == "alias"))
    elif ctor:
        # builders: constructor keywords are attribute stores, `o.a, o.b = x, y` is two stores, a value computed first and stored
        # whole afterwards sits in the store
        _ctor_kwargs_to_stores(M, fn, node)
        _split_tuple_assigns(node, attrs=True)
        _forward_subst(node, set(keep), alias_only=True, store_values=True)
    else:
        # only the temporaries the normaliser itself introduced for helper / closure arguments are put back (single use)
        _forward_subst(node, {n.id for n in ast.walk(node) if isinstance(n, ast.Name) and not n.id.startswith("__")}, alias_only=True)
    node = _OperatorCalls(M, fn).visit(node)
    # temporaries of the normaliser that nothing reads any more (their loop was unrolled, their use substituted) are dropped
    loads = {n.id for n in ast.walk(node) if isinstance(n, ast.Name) and isinstance(n.ctx, ast.Load)}
    for block in _blocks(node):
        if not block:
            continue
        kept = [st for st in block if not (isinstance(st, ast.Assign) and len(st.targets) == 1 and isinstance(st.targets[0], ast.Name) and
                                           st.targets[0].id.startswith("__") and st.targets[0].id not in loads and
                                           isinstance(st.value, (ast.List, ast.Tuple, ast.Name, ast.Constant, ast.Attribute, ast.Dict)))]
        block[:] = kept or [ast.Pass()]
    ast.fix_missing_locations(node)
    return node
