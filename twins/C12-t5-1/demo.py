"""Demo for property C12 (stacking writes through).

Builds several dozen random charts of all five games (with empty lists, ties,
unsorted rows, negative / zero values, gapped / shuffled / shifted row labels),
drives random sequences of stack operations on them (whole-column arithmetic,
conditional assignment through ``loc`` on one or several columns, plain
``stack[...]`` item assignment, re-stacking, restricted stacks, mapset stacks)
and dumps every observable after every step.  Prints ``DIGEST <sha256>``.
"""
import hashlib
import random
import warnings

import numpy as np
import pandas as pd

from reamber.base.Map import Map
from reamber.base.MapSet import MapSet
from reamber.base.lists.BpmList import BpmList
from reamber.base.lists.notes.HitList import HitList
from reamber.base.lists.notes.HoldList import HoldList
from reamber.base.lists.notes.NoteList import NoteList
from reamber.bms.BMSMap import BMSMap
from reamber.o2jam.O2JMap import O2JMap
from reamber.o2jam.O2JMapSet import O2JMapSet
from reamber.osu.OsuMap import OsuMap
from reamber.quaver.QuaMap import QuaMap
from reamber.sm.SMMap import SMMap
from reamber.sm.SMMapSet import SMMapSet

SEED = 1201
random.seed(SEED)
rng = random.Random(SEED)

OUT = []


def emit(*parts):
    OUT.append(" | ".join(str(p) for p in parts))


def canon(x):
    """Canonical text of a value, with its dtype / labels / order."""
    if isinstance(x, pd.DataFrame):
        cols = []
        for c in x.columns:
            cols.append(f"{c!r}:{x[c].dtype}:{[repr(v) for v in x[c].tolist()]}")
        return (
            f"DF(cols={list(x.columns)!r}, index={x.index.tolist()!r}"
            f"/{x.index.dtype}/{type(x.index).__name__}, {'; '.join(cols)})"
        )
    if isinstance(x, pd.Series):
        return (
            f"SER(name={x.name!r}, dtype={x.dtype}, index={x.index.tolist()!r}"
            f"/{x.index.dtype}, {[repr(v) for v in x.tolist()]})"
        )
    if isinstance(x, np.ndarray):
        return f"ND({x.dtype}, {[repr(v) for v in x.tolist()]})"
    return f"{type(x).__name__}({x!r})"


def dump_map(tag, m, originals=None):
    for k, v in m.objs.items():
        same = "" if originals is None else f" same_obj={originals[k] is v}"
        emit(tag, "list", k, type(v).__name__, f"len={len(v)}{same}", canon(v.df))


def dump_stack(tag, s):
    emit(tag, "stack", type(s).__qualname__, f"ixs={s._ixs!r}",
         [type(i).__name__ for i in s._ixs],
         [type(o).__name__ for o in s._unstacked], canon(s._stacked))


def attempt(tag, fn):
    """Runs fn, records result or the exception type and any warning classes."""
    with warnings.catch_warnings(record=True) as w:
        warnings.simplefilter("always")
        try:
            r = fn()
            emit(tag, "ok", canon(r) if r is not None else "None")
        except Exception as e:  # noqa
            emit(tag, "EXC", type(e).__name__)
    emit(tag, "warnings", sorted({x.category.__name__ for x in w}))


# ---------------------------------------------------------------- generators
GAMES = [OsuMap, SMMap, BMSMap, O2JMap, QuaMap]
OFFSETS = [-1000.0, -0.5, 0.0, 0.0, 1.0, 250.0, 250.0, 500.0, 1000.0, 1e6, 333.3333]
LENGTHS = [0.0, 1.0, 50.0, 50.0, 125.5, 1000.0, -10.0]
BPMS = [0.0, 60.0, 120.0, 120.0, 175.5, 300.0, -120.0, 1e-3]
STRS = ["", "a.wav", "b.ogg", "c", "hit.wav"]


def fill(lst, n):
    """A list of n random rows of list class ``lst``, dtypes as the defaults."""
    cls = type(lst)
    tl = cls.empty(n)
    df = tl.df
    for c in df.columns:
        dt = df[c].dtype
        if c == "offset":
            vals = [rng.choice(OFFSETS) for _ in range(n)]
        elif c == "length":
            vals = [rng.choice(LENGTHS) for _ in range(n)]
        elif c == "bpm":
            vals = [rng.choice(BPMS) for _ in range(n)]
        elif c == "metronome":
            vals = [rng.choice([3.0, 4.0, 4.0, 7.0]) for _ in range(n)]
        elif c == "multiplier":
            vals = [rng.choice([0.0, 0.5, 1.0, 2.0, -1.0]) for _ in range(n)]
        elif c == "column":
            vals = [rng.choice([0, 0, 1, 2, 3, 6, 9, 17]) for _ in range(n)]
        elif dt == bool:
            vals = [rng.random() < 0.5 for _ in range(n)]
        elif dt == object:
            if c == "keysounds":
                vals = [[rng.choice(STRS)] if rng.random() < 0.5 else [] for _ in range(n)]
            else:
                vals = [rng.choice(STRS) for _ in range(n)]
        else:
            vals = [rng.randrange(0, 101) for _ in range(n)]
        df[c] = pd.Series(vals, dtype=dt, index=df.index)
    return cls(df)


def relabel(tl):
    """Gives the list non-default row labels / order (in place on a new df)."""
    mode = rng.choice(["none", "none", "gaps", "shuffle", "shift", "gaps+shuffle", "dup"])
    df = tl.df
    n = len(df)
    if mode == "none" or n == 0:
        return mode
    if "gaps" in mode:
        keep = [rng.random() < 0.6 for _ in range(n)]
        df = df[pd.Series(keep, index=df.index)]
    if "shuffle" in mode:
        order = list(range(len(df)))
        rng.shuffle(order)
        df = df.iloc[order]
    if mode == "shift":
        df = df.set_axis([i * 3 + 100 for i in range(n)], axis=0)
    if mode == "dup":
        df = df.set_axis([i // 2 for i in range(n)], axis=0)
    tl.df = df
    return mode


def gen_map(cls, empty_bias):
    m = cls()
    modes = {}
    for k in list(m.objs.keys()):
        if rng.random() < empty_bias:
            n = 0
        else:
            n = rng.choice([1, 1, 2, 3, 5, 8, 13])
        new = fill(m.objs[k], n)
        modes[k] = relabel(new)
        m.objs[k] = new
    return m, modes


def rand_mask(n):
    kind = rng.choice(["rand", "rand", "all", "none", "first", "alt"])
    if kind == "rand":
        v = [rng.random() < 0.5 for _ in range(n)]
    elif kind == "all":
        v = [True] * n
    elif kind == "none":
        v = [False] * n
    elif kind == "first":
        v = [i == 0 for i in range(n)]
    else:
        v = [i % 2 == 0 for i in range(n)]
    return kind, pd.Series(v, dtype=bool)


BASE_PROPS = ["offset", "column", "length", "bpm", "metronome"]
INCLUDES = [None, None, (HitList,), (HoldList,), (NoteList,), (BpmList,),
            (HitList, BpmList), HitList, (), [HitList], (pd.DataFrame,)]


def all_props(m):
    props = list(BASE_PROPS)
    for p in type(m).Stacker._props:
        if p not in props:
            props.append(p)
    return props + ["does_not_exist", "multiplier"]


def scalar_for(prop):
    if prop in ("hitsound_file", "sample"):
        return rng.choice(STRS)
    if prop == "kiai":
        return rng.choice([True, False])
    if prop == "keysounds":
        return "ks"
    return rng.choice([0, 1, 2, -1, 0.5, 3, 1000, 2.25])


def arith(getter, setter, op, v):
    cur = getter()
    if op == "+":
        setter(cur + v)
    elif op == "-":
        setter(cur - v)
    elif op == "*":
        setter(cur * v)
    elif op == "/":
        setter(cur / v)
    else:
        setter(v)


def op_whole(tag, m, s):
    prop = rng.choice(all_props(m))
    op = rng.choice(["+", "-", "*", "/", "="])
    v = scalar_for(prop)
    emit(tag, "whole", prop, op, repr(v))
    attempt(tag, lambda: arith(lambda: getattr(s, prop), lambda x: setattr(s, prop, x), op, v))


def op_item(tag, m, s):
    prop = rng.choice(all_props(m))
    v = scalar_for(prop)
    emit(tag, "setitem", prop, repr(v))
    attempt(tag, lambda: s.__setitem__(prop, v))
    attempt(tag, lambda: s[prop])


def op_series(tag, m, s):
    """Assigns a whole Series (argument must not be modified)."""
    prop = rng.choice(BASE_PROPS)
    n = len(s._stacked)
    val = pd.Series([float(rng.randrange(-5, 50)) for _ in range(n)])
    before = canon(val)
    emit(tag, "series", prop)
    attempt(tag, lambda: setattr(s, prop, val))
    emit(tag, "arg_unchanged", before == canon(val), canon(val))


def op_loc(tag, m, s):
    n = len(s._stacked)
    kind, mask = rand_mask(n)
    props = all_props(m)
    if rng.random() < 0.5:
        cols = rng.choice(props)
    else:
        cols = rng.sample(props[:-2], rng.choice([1, 2, 3]))
    op = rng.choice(["+", "*", "=", "-", "/"])
    v = rng.choice([0, 1, 2, -1, 0.5, 7])
    emit(tag, "loc", kind, cols, op, repr(v))
    before = canon(mask)
    attempt(tag, lambda: arith(lambda: s.loc[mask, cols], lambda x: s.loc.__setitem__((mask, cols), x), op, v))
    emit(tag, "mask_unchanged", before == canon(mask))


def op_loc_cond(tag, m, s):
    """Conditional selection derived from the stack itself, as in the docs."""
    which = rng.choice(["lt", "gt", "and", "or", "rows"])
    thr = rng.choice(OFFSETS)
    col = rng.choice(["offset", "column", "length", ["offset", "length"], ["column"]])
    emit(tag, "loc_cond", which, thr, col)

    def run():
        if which == "lt":
            s.loc[s.offset < thr, col] += 1
        elif which == "gt":
            s.loc[s.offset > thr, col] *= 2
        elif which == "and":
            s.loc[(s.offset >= thr) & (s.column < 3), col] -= 5
        elif which == "or":
            s.loc[(s.offset < thr) | (s.column == 0), col] = 42
        else:
            s.loc[s.offset == thr] = s.loc[s.offset == thr]

    attempt(tag, run)


def op_read(tag, m, s):
    prop = rng.choice(all_props(m))
    emit(tag, "read", prop)
    attempt(tag, lambda: getattr(s, prop))
    attempt(tag, lambda: s[prop][s["offset"] > 0])
    attempt(tag, lambda: s.loc[s["offset"] <= 250.0, prop])
    attempt(tag, lambda: s.loc[0])
    attempt(tag, lambda: s.loc[len(s._stacked) + 5])


OPS = [op_whole, op_whole, op_item, op_series, op_loc, op_loc, op_loc_cond, op_loc_cond, op_read]


def run_map_case(case, cls, empty_bias):
    tag = f"c{case}:{cls.__name__}"
    m, modes = gen_map(cls, empty_bias)
    emit(tag, "modes", modes)
    originals = dict(m.objs)
    dump_map(tag + ":init", m, originals)
    include = rng.choice(INCLUDES)
    emit(tag, "include", repr(include))
    holder = {}

    def mk(inc=include):
        holder["s"] = m.stack(inc) if inc is not None else m.stack()

    attempt(tag + ":stack", mk)
    for step in range(rng.choice([3, 5, 8])):
        st = f"{tag}:s{step}"
        if "s" not in holder or rng.random() < 0.25:
            inc = rng.choice(INCLUDES)
            emit(st, "restack", repr(inc))
            attempt(st, lambda: mk(inc))
            if "s" not in holder:
                continue
        s = holder["s"]
        rng.choice(OPS)(st, m, s)
        dump_stack(st, s)
        dump_map(st, m, originals)
    # a second, independent stack of the same map sees the written values
    attempt(tag + ":restack_offset", lambda: m.stack().offset)
    # Map.rate drives three whole-column stack assignments on a copy
    snapshot = [canon(v.df) for v in m.objs.values()]

    def rate():
        r = m.rate(rng.choice([0.5, 1.0, 1.5, 2.0]))
        dump_map(tag + ":rated", r)

    attempt(tag + ":rate", rate)
    emit(tag, "rate_left_input_alone", snapshot == [canon(v.df) for v in m.objs.values()])
    return m


SETS = {OsuMap: MapSet, SMMap: SMMapSet, BMSMap: MapSet, O2JMap: O2JMapSet, QuaMap: MapSet}


def run_set_case(case, cls, maps):
    tag = f"set{case}:{cls.__name__}"
    ms_cls = SETS[cls]
    holder = {}

    def mk():
        try:
            ms = ms_cls(maps)
        except TypeError:
            ms = ms_cls()
            ms.maps = maps
        holder["ms"] = ms
        holder["s"] = ms.stack()

    attempt(tag + ":mk", mk)
    if "s" not in holder:
        holder["ms"] = MapSet(maps)
        attempt(tag + ":mk_base", lambda: holder.__setitem__("s", holder["ms"].stack()))
    s = holder["s"]
    emit(tag, type(holder["ms"]).__name__, type(s).__qualname__, len(s.stackers))
    for step in range(4):
        st = f"{tag}:s{step}"
        prop = rng.choice(BASE_PROPS + ["does_not_exist"])
        op = rng.choice(["+", "*", "/", "-"])
        v = rng.choice([1, 2, 0.5, -3, 0])
        emit(st, "set_whole", prop, op, v)
        attempt(st, lambda: getattr(s, prop))
        attempt(st, lambda: arith(lambda: getattr(s, prop), lambda x: setattr(s, prop, x), op, v))
        for i, m in enumerate(maps):
            dump_map(f"{st}:m{i}", m)
        for i, sub in enumerate(s.stackers):
            dump_stack(f"{st}:sub{i}", sub)


def class_checks():
    """Shape of the generated stack properties on every Stacker class."""
    for cls in [Map] + GAMES + [MapSet, O2JMapSet, SMMapSet]:
        st = cls.Stacker
        names = []
        for k in dir(st):
            a = getattr(st, k)
            if isinstance(a, property):
                names.append((k, a.fget is not None, a.fset is not None, a.fdel is None))
        emit("class", cls.__name__, st.__qualname__, st._props, sorted(names))
    attempt("empty_stacker", lambda: Map.Stacker([]))
    attempt("empty_map_stack", lambda: dump_stack("empty_map", Map().stack()))
    attempt("empty_map_rate", lambda: dump_map("empty_rate", Map().rate(2.0)))
    for G in GAMES:
        attempt("empty_game_stack:" + G.__name__, lambda: dump_stack("empty:" + G.__name__, G().stack()))
        attempt("empty_game_stack_inc:" + G.__name__, lambda: dump_stack("emptyinc:" + G.__name__, G().stack((HoldList, BpmList))))


def main():
    class_checks()
    case = 0
    per_game = {g: [] for g in GAMES}
    for rnd in range(10):
        for g in GAMES:
            empty_bias = [0.0, 0.2, 0.5, 0.8, 1.0][rnd % 5]
            per_game[g].append(run_map_case(case, g, empty_bias))
            case += 1
    for i, g in enumerate(GAMES):
        ms = per_game[g]
        run_set_case(i, g, [ms[0], ms[5].deepcopy(), ms[1]])
        run_set_case(i + 10, g, [ms[2]])
        run_set_case(i + 20, g, [ms[5], ms[6], ms[7], ms[8]])
    text = "\n".join(OUT)
    import os
    if os.environ.get("C12_DUMP"):
        with open(os.environ["C12_DUMP"], "w") as f:
            f.write(text)
    print("DIGEST", hashlib.sha256(text.encode("utf-8")).hexdigest())


main()
