"""Demonstration for C10 / k=2: TimingMap.snaps.

Prints ONE line on stdout: sha256 over a canonical text of every result, its
types / dtypes, exceptions raised (type + message) and the state of the inputs
after each call.  Run as
    cd /tmp/r15/C10 && PYTHONPATH=/tmp/r15/C10 /venv/bin/python demo.py
"""
import copy
import hashlib
import logging
import os
import random
import sys
import warnings
from fractions import Fraction

import numpy as np
import pandas as pd

import reamber
from reamber.algorithms.timing.TimingMap import TimingMap
from reamber.algorithms.timing.utils.BpmChangeOffset import BpmChangeOffset
from reamber.algorithms.timing.utils.BpmChangeSnap import BpmChangeSnap
from reamber.algorithms.timing.utils.Snapper import Snapper
from reamber.algorithms.timing.utils.snap import Snap
from reamber.base.Bpm import Bpm
from reamber.base.lists.BpmList import BpmList

print(reamber.__file__, file=sys.stderr)
logging.disable(logging.CRITICAL)
warnings.simplefilter("ignore")

ROOT = os.path.dirname(os.path.dirname(os.path.abspath(reamber.__file__)))
LINES = []


def scal(x):
    if isinstance(x, np.generic):
        return f"{type(x).__name__}[{x.dtype}]:{x.item()!r}"
    return f"{type(x).__name__}:{x!r}"


def canon(x):
    if isinstance(x, Snap):
        return f"Snap({scal(x.measure)},{scal(x.beat)},{scal(x.metronome)})"
    if isinstance(x, BpmChangeSnap):
        return f"BCS({scal(x.bpm)},{scal(x.metronome)},{canon(x.snap)})"
    if isinstance(x, BpmChangeOffset):
        return f"BCO({scal(x.bpm)},{scal(x.metronome)},{scal(x.offset)})"
    if isinstance(x, TimingMap):
        return f"TM({canon(x.bpm_changes_offset)})"
    if isinstance(x, np.ndarray):
        return f"nd[{x.dtype}]{x.shape}(" + ",".join(canon(i) for i in x) + ")"
    if isinstance(x, pd.Series):
        return f"Series[{x.dtype}]idx{list(x.index)!r}(" + ",".join(canon(i) for i in x) + ")"
    if isinstance(x, pd.DataFrame):
        return (
            f"DF{x.shape}cols{list(x.columns)!r}idx{list(x.index)!r}"
            f"dt{[str(d) for d in x.dtypes]!r}("
            + ";".join(",".join(canon(v) for v in row) for row in x.itertuples(index=False))
            + ")"
        )
    if isinstance(x, (list, tuple)):
        return type(x).__name__ + "(" + ",".join(canon(i) for i in x) + ")"
    return scal(x)


def attempt(label, fn):
    try:
        r = fn()
        LINES.append(f"{label} -> OK {canon(r)}")
        return r
    except Exception as e:  # noqa
        LINES.append(f"{label} -> EXC {type(e).__name__}: {e}")
        return None


def query_forms(rng, q):
    """The same queries, handed over in the container types callers use"""
    forms = [("list", list(q)), ("tuple", tuple(q)), ("nd", np.array(q, dtype=float) if len(q) else np.array([]))]
    # a Series with non-default row labels, as after a filter / shuffle
    idx = list(range(100, 100 + 3 * len(q), 3))
    rng.shuffle(idx)
    forms.append(("series", pd.Series(list(q), index=idx, dtype=float)))
    if q and all(float(v).is_integer() for v in q):
        forms.append(("ints", [int(v) for v in q]))
    return forms


def run_case(name, rng, bco_s, snapper, q):
    originals = copy.deepcopy(bco_s)
    tm = attempt(f"{name}/tm", lambda: TimingMap.from_bpm_changes_offset(bco_s))
    if tm is None:
        return
    for fname, qq in query_forms(rng, q):
        before = canon(qq)
        attempt(f"{name}/snaps[{fname}]", lambda: tm.snaps(qq, snapper))
        LINES.append(f"{name}/snaps[{fname}] arg unchanged={canon(qq) == before} {canon(qq)}")
    qq = list(q)
    res = attempt(f"{name}/beats", lambda: tm.beats(qq, snapper))
    LINES.append(f"{name}/beats arg {canon(qq)}")
    attempt(f"{name}/snap_objects", lambda: tm.snap_objects(qq, [f"o{i}" for i in range(len(qq))], snapper))
    # snaps -> offsets round trip
    sn = attempt(f"{name}/snaps2", lambda: tm.snaps(qq, snapper))
    if sn is not None:
        attempt(f"{name}/roundtrip", lambda: tm.offsets(list(sn)))
    LINES.append(f"{name}/tm after {canon(tm)} snapper_is_default={tm.snapper is TimingMap.snapper}")
    LINES.append(f"{name}/bcos sorted_now={canon(bco_s)} orig={canon(originals)}")


def gen_bcos(rng, n, kind):
    offset = rng.choice([0, 0.0, -1500, -333.25, 1234.5, 100, rng.uniform(-5000, 5000)])
    out = []
    for i in range(n):
        bpm = rng.choice([60, 120, 150, 175.5, 200, 222.22, 60000, 30, rng.uniform(20, 500)])
        met = rng.randint(1, 8)
        out.append(BpmChangeOffset(bpm, met, offset))
        beat = 60000 / bpm
        if kind == "measure":
            offset = offset + beat * met * rng.randint(1, 6)
        elif kind == "beat":
            offset = offset + beat * rng.randint(1, 13)
        elif kind == "frac":
            offset = offset + beat * (rng.randint(0, 9) + rng.choice([0.25, 0.5, 1 / 3, 0.75, 1 / 7, 5 / 96]))
        elif kind == "dup" and rng.random() < 0.4:
            pass  # duplicated position
        else:
            offset = offset + rng.uniform(0.5, 4000)
    return out


def gen_queries(rng, bcos, m, allow_before=False):
    lo = min(b.offset for b in bcos)
    hi = max(b.offset for b in bcos) + 5000
    q = []
    for _ in range(m):
        r = rng.random()
        if r < 0.25:
            q.append(rng.choice(bcos).offset)  # exactly on a tempo change
        elif r < 0.4 and q:
            q.append(rng.choice(q))  # duplicate
        elif r < 0.6:
            b = rng.choice(bcos)
            q.append(b.offset + 60000 / b.bpm * rng.randint(0, 40) / rng.choice([1, 2, 3, 4, 8, 16]))
        elif r < 0.7:
            b = rng.choice(bcos)  # a hair before / after a tempo change
            q.append(b.offset + rng.choice([-1e-9, 1e-9, -0.4, 0.4]))
        else:
            q.append(rng.uniform(lo, hi))
    if not allow_before:
        q = [max(v, lo) for v in q]
    return q


def main():
    rng = random.Random(2015)
    default = Snapper()
    snappers = [default, default, Snapper([1, 2, 4]), default, Snapper((1, 3, 5, 7)), Snapper([1, 2, 3, 4, 6, 8, 12, 16, 24, 48, 192])]
    kinds = ["measure", "beat", "frac", "dup", "free"]

    # --- generated cases ---------------------------------------------------
    for i in range(70):
        n = rng.choice([1, 1, 2, 3, 4, 5, 8, 12])
        kind = kinds[i % len(kinds)]
        bcos = gen_bcos(rng, n, kind)
        q = gen_queries(rng, bcos, rng.choice([0, 1, 2, 5, 11, 24]), allow_before=(i % 10 == 9))
        if rng.random() < 0.5:
            rng.shuffle(bcos)
        mode = rng.random()
        if mode < 0.2:
            q.sort()
        elif mode < 0.4:
            q.sort(reverse=True)
        run_case(f"gen{i}:{kind}:n{n}", rng, bcos, snappers[i % len(snappers)], q)

    # --- unusual inputs ----------------------------------------------------
    B = BpmChangeOffset
    base = lambda: [B(120, 4, -250.0), B(90, 3, 1750.0), B(200, 7, 3750.0), B(60, 5, 3750.0 + 2100.0)]
    nan, inf = float("nan"), float("inf")
    specials = {
        "empty_queries": [],
        "single": [1750.0],
        "all_same": [2000.0] * 5,
        "before_first": [-251.0, 0.0],
        "only_before_first": [-1e6],
        "nan_last": [0.0, nan],
        "nan_and_before_first": [-9999.0, nan, 100.0],
        "inf": [0.0, inf],
        "neg_inf": [-inf, 0.0],
        "huge": [1e15, 0.0, 1e12],
        "near_measure_end": [1749.9999999, 1750.0000001, 3749.999, 5849.9999],
        "bools": [True, False],
        "fractions_obj": [Fraction(1750), Fraction(7001, 4), Fraction(0)],
        "strings": ["0", "1750"],
        "none": [None, 0.0],
        "nested_2d": [[0.0, 1750.0], [3750.0, 100.0]],
        "np_int32": list(np.array([0, 1750, 250, 250], dtype=np.int32)),
    }
    for name, q in specials.items():
        tm = TimingMap.from_bpm_changes_offset(base())
        before = canon(q)
        attempt(f"special:{name}/snaps", lambda: tm.snaps(q, default))
        attempt(f"special:{name}/beats", lambda: tm.beats(q, default))
        LINES.append(f"special:{name} arg unchanged={canon(q) == before} tm={canon(tm)}")

    # non-list query containers
    tm = TimingMap.from_bpm_changes_offset(base())
    attempt("special:scalar/snaps", lambda: tm.snaps(1750.0, default))
    attempt("special:zero_d/snaps", lambda: tm.snaps(np.array(1750.0), default))
    attempt("special:generator/snaps", lambda: tm.snaps((x for x in [0.0, 1.0]), default))
    attempt("special:range/snaps", lambda: tm.snaps(range(0, 4000, 500), default))
    attempt("special:set/snaps", lambda: tm.snaps({0.0}, default))
    attempt("special:dict_keys/snaps", lambda: tm.snaps({0.0: 1, 500.0: 2}.keys(), default))
    attempt("special:snapper_none/snaps", lambda: tm.snaps([0.0, 10.0], None))
    attempt("special:snapper_none_empty/snaps", lambda: tm.snaps([], None))
    ro = np.array([3750.0, 0.0, 1750.0])
    ro.setflags(write=False)
    attempt("special:readonly/snaps", lambda: tm.snaps(ro, default))
    LINES.append(f"special:readonly arg {canon(ro)}")

    # broken timing maps
    for name, bcos in {
        "tm_empty": [],
        "tm_tuple": (B(120, 4, 0),),
        "tm_met_none": [B(120, None, 0)],
        "tm_met_zero": [B(120, 0, 0)],
        "tm_bpm_zero": [B(0, 4, 0)],
        "tm_bpm_negative": [B(-120, 4, 0), B(60, 4, 2000)],
        "tm_met_frac": [B(120, 3.5, 0), B(90, Fraction(7, 2), 1750.0)],
        "tm_unsorted_direct": [B(60, 4, 9000), B(90, 5, 6000), B(120, 6, 3000), B(150, 7, 0)],
    }.items():
        def go():
            tm = TimingMap(bpm_changes_offset=bcos)  # NOT pre-sorted by the factory
            return [tm.snaps([9000, 0, 3000.5, 6100, 0], default), tm]
        attempt(f"special:{name}", go)
        LINES.append(f"special:{name} bcos after {canon(bcos)}")

    # custom snapper stored on the TimingMap, different from the one passed in
    tm = TimingMap(bpm_changes_offset=[B(150, 4, 10), B(75, 3, 10 + 400 * 4 * 2 + 133.0)], snapper=Snapper([1, 2]))
    attempt("special:two_snappers", lambda: [tm.snaps([10, 3343.0, 3400, 500, 20000.3], Snapper([1, 3])), tm.bpm_changes_snap()])

    # --- through BpmList.to_timing_map -------------------------------------
    for j in range(10):
        n = rng.choice([1, 2, 5, 9])
        bpms, t = [], rng.choice([0, -700.5, 250])
        for _ in range(n):
            bpm = rng.choice([90, 120, 180, 200.5, rng.uniform(40, 300)])
            met = rng.randint(1, 8)
            bpms.append(Bpm(t, bpm, met))
            t += (60000 / bpm) * met * rng.randint(1, 4) if rng.random() < 0.6 else rng.uniform(1, 3000)
        rng.shuffle(bpms)  # unsorted rows
        bl = BpmList(bpms)
        if n >= 2 and j % 2 == 0:
            bl = bl[bl.offset >= sorted(bl.offset)[1]]  # non-default row labels
        before = bl.df.to_csv() + str(bl.df.dtypes.to_dict())
        q = bl.offset  # a Series carrying the (non-default) labels

        def via_list():
            tm = bl.to_timing_map()
            return [tm.snaps(q, default), tm.beats(q, default), tm.snaps(q + 0.3, default)]

        attempt(f"bpmlist{j}:n{n}", via_list)
        after = bl.df.to_csv() + str(bl.df.dtypes.to_dict())
        LINES.append(f"bpmlist{j} unchanged={before == after} {hashlib.sha256(after.encode()).hexdigest()}")

    # --- through the BMS writer and the SM writer (callers of snaps / beats) -
    from reamber.bms.BMSMap import BMSMap
    from reamber.sm.SMMapSet import SMMapSet

    for fn in ["take.bms", "searoad.bml"]:
        path = os.path.join(ROOT, "rsc", "maps", "bms", fn)

        def bms_roundtrip():
            m = BMSMap.read_file(path)
            a = hashlib.sha256(m.write()).hexdigest()
            # shuffle rows + off-grid shift, zero-length hold
            m.hits.df = m.hits.df.sample(frac=1, random_state=7)
            m.hits.offset += 3.7
            if len(m.holds):
                m.holds.length.iloc[0] = 0
            b = hashlib.sha256(m.write()).hexdigest()
            return [a, b, len(m.hits), len(m.holds)]

        attempt(f"bms:{fn}", bms_roundtrip)

    def sm_roundtrip():
        s = SMMapSet.read_file(os.path.join(ROOT, "rsc", "maps", "sm", "Gravity.sm"))
        return [hashlib.sha256("\n".join(s.write()).encode()).hexdigest(), len(s.maps)]

    attempt("sm:Gravity", sm_roundtrip)

    text = "\n".join(LINES)
    print(f"{len(LINES)} lines", file=sys.stderr)
    print(hashlib.sha256(text.encode()).hexdigest())
    if len(sys.argv) > 1:
        open(sys.argv[1], "w").write(text)


main()
