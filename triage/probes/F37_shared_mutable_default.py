"""F37 (C14 / C16 / C08 / C06): a mutable declared default (Quaver `keysounds = ["object", []]`) is ONE Python object that
list_props._default, TimedList.empty and TimedList.from_dict place into every row of every list — and it is the class-level
default itself.  Giving one converted / empty-built note a key sound gives it to every note, every list built afterwards,
and the written .qua uses YAML anchors (&id001 / *id001) because the writer sees one shared object.
Reported independently by the round-4 seeding agents of C06, C08, C13, C14 and C16.

Run:  cd /repo && /venv/bin/python /verif/triage/probes/F37_shared_mutable_default.py
"""
import warnings
warnings.simplefilter("ignore")
from reamber.quaver.lists.notes.QuaHitList import QuaHitList
from reamber.quaver.QuaMap import QuaMap
from reamber.osu.OsuMap import OsuMap
from reamber.osu.OsuHit import OsuHit
from reamber.osu.OsuBpm import OsuBpm
from reamber.osu.lists.notes.OsuHitList import OsuHitList
from reamber.osu.lists.OsuBpmList import OsuBpmList
from reamber.algorithms.convert import OsuToQua

a = QuaHitList.empty(3)
assert a.keysounds.iloc[0] is not a.keysounds.iloc[1], "empty(n): all rows share one keysounds list"
c = QuaHitList.from_dict([dict(offset=0, column=0), dict(offset=1, column=1)])
assert c.keysounds.iloc[0] is not c.keysounds.iloc[1], "from_dict: filled rows share one keysounds list"
a.keysounds.iloc[0].append("x")
assert QuaHitList.empty(1).keysounds.iloc[0] == [], "editing a row's keysounds changed the class default"
osu = OsuMap(); osu.hits = OsuHitList([OsuHit(0, 0), OsuHit(100, 1)]); osu.bpms = OsuBpmList([OsuBpm(0, 120)])
text = OsuToQua.convert(osu).write()
assert "&id" not in text and "*id" not in text, "converted chart is written with YAML anchors (shared KeySounds object)"
print("ok")
