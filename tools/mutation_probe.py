#!/usr/bin/env python3
"""mutation_probe.py [--cap N] [--out FILE] [MODE ...] [Cxx ...] — sensitivity probe: machine-made single-point DEFECTS in every
function a check consults.

The converse of tools/shape_probe.py.  For each property, each function its own rules ask the model for is given ONE small
behaviour-changing edit at a time, IN MEMORY (an overlay of the parsed program; nothing is executed, /repo is not touched), and the
property's own rules are re-evaluated.  A mutant is *reported* when the check adds a violation, *undecided* when it adds an
analysis error (exit 2 — still an alarm), *survived* when the verdict does not change.  Survivors are the output: each is either an
equivalent mutant / a defect of another property, or a blind spot of this property's rules; they are triaged by reading
(DESIGN §16), never armed automatically.  Up to --cap sites (default 3: first, middle, last) per function and mode.

    drop-copy   x.copy() / x.deepcopy() / deepcopy(x) / copy(x)      ->  x
    drop-sort   x.sort_values(..) / x.sorted(..) / x.sort_index(..)  ->  x ;  sorted(x, ..) -> list(x) ;  x.sort(..) -> pass
    drop-reset  x.reset_index(..)                                    ->  x
    cmp-edge    <  <->  <= ,  >  <->  >=
    int-bump    integer literal n  ->  n + 1                         (not a bool, not a default argument)
    neg-if      if c: / x if c else y   ->  if not c: / x if not c else y
    drop-stmt   an expression statement, augmented assignment, or store to an attribute / subscript  ->  pass
    str-key     string literal compared with ==, used as dict key or subscript  ->  the literal + "_"
    swap-opnd   a - b, a / b, a // b, a % b   ->  b - a, ...          (operands differ)
    swap-args   f(a, b, ..)  ->  f(b, a, ..)                          (first two positional arguments differ)

    python3-vt tools/mutation_probe.py drop-copy cmp-edge C12 C16
"""
import ast, copy, json, sys, pathlib
from concurrent.futures import ProcessPoolExecutor
sys.path.insert(0, str(pathlib.Path(__file__).resolve().parent.parent))
sys.path.insert(0, str(pathlib.Path(__file__).resolve().parent))
from alpha_rename import consulted, ROOT, ALL      # noqa: E402

MODES = ["drop-copy", "drop-sort", "drop-reset", "cmp-edge", "int-bump", "neg-if", "drop-stmt", "str-key", "swap-opnd", "swap-args"]
_EDGE = {ast.Lt: ast.LtE, ast.LtE: ast.Lt, ast.Gt: ast.GtE, ast.GtE: ast.Gt}


class _M(ast.NodeTransformer):
    """Applies the k-th eligible edit of `mode` (k = None: only count)."""

    def __init__(self, mode, k):
        self.mode, self.k, self.n, self.what = mode, k, 0, ""
        self.in_defaults = 0

    def _hit(self, node):
        self.n += 1
        if self.k is not None and self.n - 1 == self.k:
            self.what = f"line {getattr(node, 'lineno', '?')}: {ast.unparse(node)[:100]}"
            return True
        return False

    def visit_arguments(self, n):
        self.in_defaults += 1
        n = self.generic_visit(n)
        self.in_defaults -= 1
        return n

    def visit_Call(self, n):
        n = self.generic_visit(n)
        f = n.func
        m = self.mode
        if m == "drop-copy":
            if isinstance(f, ast.Attribute) and f.attr in ("copy", "deepcopy") and not n.args and not (isinstance(f.value, ast.Name) and f.value.id in ("copy",)):
                if self._hit(n):
                    return f.value
            elif ((isinstance(f, ast.Name) and f.id in ("deepcopy", "copy")) or
                  (isinstance(f, ast.Attribute) and f.attr in ("deepcopy", "copy") and isinstance(f.value, ast.Name) and f.value.id == "copy")) and len(n.args) == 1:
                if self._hit(n):
                    return n.args[0]
        elif m == "drop-sort":
            if isinstance(f, ast.Attribute) and f.attr in ("sort_values", "sorted", "sort_index"):
                if self._hit(n):
                    return f.value
            elif isinstance(f, ast.Name) and f.id == "sorted" and n.args:
                if self._hit(n):
                    return ast.Call(func=ast.Name(id="list", ctx=ast.Load()), args=[n.args[0]], keywords=[])
        elif m == "drop-reset":
            if isinstance(f, ast.Attribute) and f.attr == "reset_index":
                if self._hit(n):
                    return f.value
        elif m == "swap-args":
            if len(n.args) >= 2 and not any(isinstance(a, ast.Starred) for a in n.args[:2]) and ast.dump(n.args[0]) != ast.dump(n.args[1]):
                if self._hit(n):
                    n.args[0], n.args[1] = n.args[1], n.args[0]
        return n

    def visit_Compare(self, n):
        n = self.generic_visit(n)
        if self.mode == "cmp-edge":
            for i, op in enumerate(n.ops):
                if type(op) in _EDGE and self._hit(n):
                    n.ops[i] = _EDGE[type(op)]()
                    break
        elif self.mode == "str-key" and len(n.ops) == 1 and isinstance(n.ops[0], (ast.Eq, ast.NotEq)):
            c = n.comparators[0]
            if isinstance(c, ast.Constant) and isinstance(c.value, str) and c.value and self._hit(n):
                n.comparators[0] = ast.Constant(value=c.value + "_")
        return n

    def visit_Dict(self, n):
        n = self.generic_visit(n)
        if self.mode == "str-key":
            for i, k in enumerate(n.keys):
                if isinstance(k, ast.Constant) and isinstance(k.value, str) and k.value and self._hit(k):
                    n.keys[i] = ast.Constant(value=k.value + "_")
                    break
        return n

    def visit_Subscript(self, n):
        n = self.generic_visit(n)
        if self.mode == "str-key" and isinstance(n.slice, ast.Constant) and isinstance(n.slice.value, str) and n.slice.value and self._hit(n):
            n.slice = ast.Constant(value=n.slice.value + "_")
        return n

    def visit_Constant(self, n):
        if self.mode == "int-bump" and not self.in_defaults and type(n.value) is int and self._hit(n):
            return ast.copy_location(ast.Constant(value=n.value + 1), n)
        return n

    def visit_BinOp(self, n):
        n = self.generic_visit(n)
        if self.mode == "swap-opnd" and isinstance(n.op, (ast.Sub, ast.Div, ast.FloorDiv, ast.Mod)) and ast.dump(n.left) != ast.dump(n.right) and \
                not (isinstance(n.left, ast.Constant) and isinstance(n.left.value, (str, bytes))):
            if self._hit(n):
                n.left, n.right = n.right, n.left
        return n

    def visit_If(self, n):
        n = self.generic_visit(n)
        if self.mode == "neg-if" and self._hit(n.test):
            n.test = ast.UnaryOp(op=ast.Not(), operand=n.test)
        return n

    def visit_IfExp(self, n):
        n = self.generic_visit(n)
        if self.mode == "neg-if" and self._hit(n.test):
            n.test = ast.UnaryOp(op=ast.Not(), operand=n.test)
        return n

    def generic_visit(self, node):
        node = super().generic_visit(node)
        if self.mode in ("drop-stmt", "drop-sort"):
            for fld in ("body", "orelse", "finalbody"):
                v = getattr(node, fld, None)
                if isinstance(v, list) and v and isinstance(v[0], ast.stmt):
                    for i, st in enumerate(v):
                        el = False
                        if self.mode == "drop-stmt":
                            el = (isinstance(st, ast.Expr) and isinstance(st.value, ast.Call)) or isinstance(st, ast.AugAssign) or \
                                 (isinstance(st, ast.Assign) and all(isinstance(t, (ast.Attribute, ast.Subscript)) for t in st.targets))
                        else:
                            el = isinstance(st, ast.Expr) and isinstance(st.value, ast.Call) and isinstance(st.value.func, ast.Attribute) and st.value.func.attr == "sort"
                        if el and self._hit(st):
                            v[i] = ast.copy_location(ast.Pass(), st)
        return node


def _target(tree, lineno, name):
    for n in ast.walk(tree):
        if isinstance(n, (ast.FunctionDef, ast.AsyncFunctionDef)) and n.lineno == lineno and n.name == name:
            return n
    return None


def count_sites(src, lineno, name, mode):
    t = _target(ast.parse(src), lineno, name)
    if t is None:
        return 0
    m = _M(mode, None)
    m.visit(copy.deepcopy(t))
    return m.n


def mutate(src, lineno, name, mode, k):
    tree = ast.parse(src)
    target = _target(tree, lineno, name)
    if target is None:
        return None
    first = min([target.lineno] + [d.lineno for d in target.decorator_list])
    last = target.end_lineno
    m = _M(mode, k)
    new = m.visit(copy.deepcopy(target))
    if not m.what:
        return None
    ast.fix_missing_locations(new)
    text = ast.unparse(new)
    ind = " " * target.col_offset
    lines = src.split("\n")
    out = "\n".join(lines[:first - 1] + [ind + l if l else l for l in text.split("\n")] + lines[last:])
    try:
        compile(out, "x", "exec")
    except SyntaxError:
        return None
    return out, m.what


def job(args):
    pid, q, rel, lineno, name, base, mode, k = args
    from sa.check import Ctx, prop_module
    from sa import report as R
    src = (pathlib.Path(ROOT) / rel).read_text(encoding="utf8")
    r = mutate(src, lineno, name, mode, k)
    if r is None:
        return q, mode, k, "skipped", "", ""
    new_src, what = r
    mod = prop_module(pid)
    specs = [s for s in mod.SPECS if not s.rid.endswith(".D")]
    try:
        ctx = Ctx(ROOT, overlay={rel: new_src})
        out = R.evaluate(pid, "quick", specs, ctx, R.load_known())
        viol = sorted({(i.rule, i.key) for i in out.violations})
        err = sorted(out.errors)
    except Exception as e:
        viol, err = [], [f"{type(e).__name__}: {e}"]
    nv = [v for v in viol if v not in base[0]]
    ne = [e for e in err if e not in base[1]]
    if nv:
        return q, mode, k, "reported", what, str(nv[0][0])
    if ne:
        return q, mode, k, "undecided", what, ne[0][:120]
    return q, mode, k, "survived", what, ""


_BASE = {}


def cross_job(args):
    """a survivor of its own property's rules: does ANY check (all rules, inherited ones included) report it?"""
    q, rel, lineno, name, mode, k, pid = args
    from sa.check import Ctx, prop_module
    from sa import report as R
    src = (pathlib.Path(ROOT) / rel).read_text(encoding="utf8")
    r = mutate(src, lineno, name, mode, k)
    if r is None:
        return q, mode, k, pid, "skipped"
    try:
        mod = prop_module(pid)
        if pid not in _BASE:
            _BASE[pid] = R.evaluate(pid, "quick", mod.SPECS, Ctx(ROOT), R.load_known())
        base = _BASE[pid]
        out = R.evaluate(pid, "quick", mod.SPECS, Ctx(ROOT, overlay={rel: r[0]}), R.load_known())
        b = {(i.rule, i.key) for i in base.violations}
        nv = [i for i in out.violations if (i.rule, i.key) not in b]
        ne = [e for e in out.errors if e not in base.errors]
    except Exception as e:
        nv, ne = [], [f"{type(e).__name__}: {e}"]
    return q, mode, k, pid, ("reported" if nv else "undecided" if ne else "silent")


def cross(infile, modes):
    """--cross FILE [MODE ...]: second stage over the survivors recorded in FILE"""
    res = json.loads(pathlib.Path(infile).read_text())
    from sa.check import Ctx
    M = Ctx(ROOT).M
    todo = {}
    for x in res:
        if x["status"] == "survived" and (not modes or x["mode"] in modes):
            todo.setdefault((x["function"], x["mode"], x["k"]), x)
    jobs = []
    for (q, mode, k), x in todo.items():
        f = M.funcs[q]
        for pid in ALL:
            jobs.append((q, M.mods[f.mod].rel, f.node.lineno, f.node.name, mode, k, pid))
    jobs.sort(key=lambda j: j[6])
    with ProcessPoolExecutor(max_workers=16) as ex:
        out = list(ex.map(cross_job, jobs, chunksize=24))
    by = {}
    for q, mode, k, pid, st in out:
        by.setdefault((q, mode, k), {})[pid] = st
    n_sil = 0
    for key, x in sorted(todo.items()):
        sts = by.get(key, {})
        rep = sorted(p for p, s_ in sts.items() if s_ == "reported")
        und = sorted(p for p, s_ in sts.items() if s_ == "undecided")
        if not rep and not und:
            n_sil += 1
        print(f"{'SILENT  ' if not rep and not und else 'reported' if rep else 'undecid.'} {x['mode']:10} {key[0].replace('reamber.', '')} #{key[2]}: {x['what']}"
              + (f"   <- {','.join(rep)}" if rep else f"   <- undecided {','.join(und)}" if und else ""))
    print(f"== cross: {len(todo)} survivors of their own property's rules; {n_sil} silent in every check")
    return 0


def main():
    args = sys.argv[1:]
    if "--cross" in args:
        i = args.index("--cross")
        return cross(args[i + 1], [a for a in args[i + 2:] if a in MODES])
    cap, outf = 3, None
    if "--cap" in args:
        i = args.index("--cap")
        cap = int(args[i + 1])
        del args[i:i + 2]
    if "--out" in args:
        i = args.index("--out")
        outf = args[i + 1]
        del args[i:i + 2]
    modes = [a for a in args if a in MODES] or MODES
    pids = [a for a in args if a not in MODES] or ALL
    allres = []
    for pid in pids:
        quals, base, info = consulted(pid)
        jobs = []
        for q in quals:
            rel, lineno, name = info[q]
            src = (pathlib.Path(ROOT) / rel).read_text(encoding="utf8")
            for mode in modes:
                n = count_sites(src, lineno, name, mode)
                ks = sorted(set(range(n)) if n <= cap else {round(j * (n - 1) / (cap - 1)) for j in range(cap)} if cap > 1 else {0})
                jobs += [(pid, q, rel, lineno, name, base, mode, k) for k in ks]
        with ProcessPoolExecutor(max_workers=16) as ex:
            res = list(ex.map(job, jobs, chunksize=2))
        tot = {}
        for q, mode, k, st, what, why in res:
            tot.setdefault(mode, dict(reported=0, undecided=0, survived=0, skipped=0))[st] += 1
            allres.append(dict(property=pid, function=q, mode=mode, k=k, status=st, what=what, why=why))
            if st == "survived":
                print(f"survived {pid} {mode:10} {q.replace('reamber.', '')} #{k}: {what}")
        s = {st: sum(t[st] for t in tot.values()) for st in ("reported", "undecided", "survived")}
        print(f"== {pid}: {len(quals)} functions, {sum(s.values())} mutants: {s}   by mode: " +
              "; ".join(f"{m} {t['reported']}/{t['undecided']}/{t['survived']}" for m, t in sorted(tot.items())), flush=True)
    if outf:
        pathlib.Path(outf).write_text(json.dumps(allres, indent=0))
    return 0


if __name__ == "__main__":
    sys.exit(main())
