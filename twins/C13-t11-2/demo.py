"""Demo for change 2: SMMapSet.rate (reamber/sm/SMMapSet.py).

Rates many generated StepMania mapsets (0..3 charts; empty hold / stop / mine
lists; ties, unsorted rows, negative and zero times; file offset None, 0.0,
-0.0, negative, int, numpy scalars; sample window given as float / int / numpy
scalars; every metadata field set away from its default) at many rates, checks
rate 1, composition, non-mutation and non-sharing of the input, writes the
rated mapset and reads it back, and does the same for the .sm files of the
repository.  The other mapset classes (MapSet, O2JMapSet) and OsuMap are run
too, as a control.

Prints one line:  DIGEST <sha256 hex>
"""
import dataclasses
import hashlib
import logging
import random
import warnings

import numpy as np
import pandas as pd

from reamber.base import Hit, Hold, Bpm
from reamber.base.Map import Map
from reamber.base.MapSet import MapSet
from reamber.base.lists.BpmList import BpmList
from reamber.base.lists.TimedList import TimedList
from reamber.base.lists.notes.HitList import HitList
from reamber.base.lists.notes.HoldList import HoldList
from reamber.bms import BMSMap, BMSHit, BMSHold, BMSBpm
from reamber.bms.BMSChannel import BMSChannel
from reamber.bms.lists.BMSBpmList import BMSBpmList
from reamber.bms.lists.notes.BMSHitList import BMSHitList
from reamber.bms.lists.notes.BMSHoldList import BMSHoldList
from reamber.o2jam import O2JMap, O2JMapSet, O2JHit, O2JHold, O2JBpm
from reamber.o2jam.lists.O2JBpmList import O2JBpmList
from reamber.o2jam.lists.notes.O2JHitList import O2JHitList
from reamber.o2jam.lists.notes.O2JHoldList import O2JHoldList
from reamber.osu import OsuMap, OsuHit, OsuHold, OsuBpm, OsuSv
from reamber.osu.OsuSample import OsuSample
from reamber.osu.lists.OsuBpmList import OsuBpmList
from reamber.osu.lists.OsuSampleList import OsuSampleList
from reamber.osu.lists.OsuSvList import OsuSvList
from reamber.osu.lists.notes.OsuHitList import OsuHitList
from reamber.osu.lists.notes.OsuHoldList import OsuHoldList
from reamber.quaver import QuaMap, QuaHit, QuaHold, QuaBpm, QuaSv
from reamber.quaver.lists.QuaBpmList import QuaBpmList
from reamber.quaver.lists.QuaSvList import QuaSvList
from reamber.quaver.lists.notes.QuaHitList import QuaHitList
from reamber.quaver.lists.notes.QuaHoldList import QuaHoldList
from reamber.sm import SMMap, SMMapSet, SMHit, SMHold, SMBpm, SMStop, SMMine, SMRoll
from reamber.sm import SMFake, SMLift, SMKeySound
from reamber.sm.lists.SMBpmList import SMBpmList
from reamber.sm.lists.SMStopList import SMStopList
from reamber.sm.lists.notes import (
    SMHitList,
    SMHoldList,
    SMMineList,
    SMRollList,
    SMFakeList,
    SMLiftList,
    SMKeySoundList,
)

logging.disable(logging.CRITICAL)
random.seed(130002)

OUT = []


def emit(*parts):
    OUT.append(" ".join(str(p) for p in parts))


# ---------------------------------------------------------------- dumping ---
def dump_df(tag, df):
    emit(tag, "cols", list(df.columns))
    emit(tag, "dtypes", [str(t) for t in df.dtypes])
    emit(tag, "index", type(df.index).__name__, df.index.tolist())
    for c in df.columns:
        emit(tag, "col", c, repr(df[c].tolist()))


def dump_value(tag, v):
    if isinstance(v, TimedList):
        emit(tag, "TimedList", type(v).__name__)
        dump_df(tag, v.df)
    elif isinstance(v, Map):
        dump_map(tag, v)
    elif isinstance(v, list) and v and all(isinstance(i, Map) for i in v):
        emit(tag, "maps", len(v))
        for i, m in enumerate(v):
            dump_map(f"{tag}[{i}]", m)
    else:
        emit(tag, type(v).__name__, repr(v))


def dump_map(tag, m):
    emit(tag, "Map", type(m).__name__, "keys", list(m.objs.keys()))
    for f in dataclasses.fields(m):
        if f.name == "objs":
            continue
        dump_value(f"{tag}.{f.name}", getattr(m, f.name))
    for k, v in m.objs.items():
        dump_value(f"{tag}.objs[{k}]", v)


def dump_any(tag, x):
    if isinstance(x, Map):
        dump_map(tag, x)
    elif isinstance(x, MapSet):
        emit(tag, "MapSet", type(x).__name__)
        for f in dataclasses.fields(x):
            dump_value(f"{tag}.{f.name}", getattr(x, f.name))
    else:
        dump_value(tag, x)


def guarded(tag, fn):
    """Runs fn, records exception type / warnings, returns result or None"""
    with warnings.catch_warnings(record=True) as ws:
        warnings.simplefilter("always")
        try:
            res = fn()
            emit(tag, "ok")
        except Exception as e:  # noqa
            res = None
            emit(tag, "raised", type(e).__name__, str(e)[:200])
    for w in sorted({(w.category.__name__, str(w.message)[:160]) for w in ws}):
        emit(tag, "warning", *w)
    return res


# ------------------------------------------------------------- generation ---
def gen_offsets(n, mode, step=125.0):
    if mode == "sorted":
        return [i * step + 1000.0 for i in range(n)]
    if mode == "unsorted":
        xs = [i * step + 1000.0 for i in range(n)]
        random.shuffle(xs)
        return xs
    if mode == "ties":
        return [float(random.choice([0, 500, 500, 1000])) for _ in range(n)]
    if mode == "negative":
        return [random.choice([-2000.0, -125.5, 0.0, -0.0, 250.25]) for _ in range(n)]
    if mode == "fraction":
        return [random.uniform(-500, 60000) for _ in range(n)]
    raise ValueError(mode)


MODES = ["sorted", "unsorted", "ties", "negative", "fraction"]
COUNTS = [0, 0, 1, 2, 5, 12]


def rc():
    return random.choice(COUNTS)


def lengths(n):
    return [random.choice([0.0, 1.0, 125.0, 333.3, 2000.0]) for _ in range(n)]


def bpm_values(n):
    return [random.choice([60.0, 120.0, 150.5, 200.0, 0.001, 999.0]) for _ in range(n)]


def gen_base(keys, mode):
    m = Map()
    nh, nl, nb = rc(), rc(), rc()
    m.hits = HitList(
        [Hit(o, random.randrange(keys)) for o in gen_offsets(nh, mode)]
    )
    m.holds = HoldList(
        [
            Hold(o, random.randrange(keys), ln)
            for o, ln in zip(gen_offsets(nl, mode), lengths(nl))
        ]
    )
    m.bpms = BpmList(
        [
            Bpm(o, b, random.choice([3, 4, 7]))
            for o, b in zip(gen_offsets(nb, mode, 2000.0), bpm_values(nb))
        ]
    )
    return m


def gen_base_int(keys, mode):
    """Lists given as DataFrames with integer dtypes"""
    m = Map()
    nh, nl, nb = rc(), rc(), rc()
    ints = lambda n: [int(o) for o in gen_offsets(n, mode)]
    m.hits = HitList(
        pd.DataFrame(
            {"offset": ints(nh), "column": [random.randrange(keys) for _ in range(nh)]},
            dtype="int64",
        )
    )
    m.holds = HoldList(
        pd.DataFrame(
            {
                "offset": ints(nl),
                "column": [random.randrange(keys) for _ in range(nl)],
                "length": [random.choice([0, 1, 250]) for _ in range(nl)],
            },
            dtype="int64",
        )
    )
    m.bpms = BpmList(
        pd.DataFrame(
            {
                "offset": ints(nb),
                "bpm": [random.choice([60, 120, 240]) for _ in range(nb)],
                "metronome": [4] * nb,
            },
            dtype="int64",
        )
    )
    return m


def gen_osu(keys, mode):
    m = OsuMap()
    m.circle_size = float(keys)
    m.title = "tést"
    m.tags = ["a", "b"]
    m.preview_time = random.choice([-1, 0, 1, 12345, 999.5, -1.0])
    nh, nl, nb, ns, nsm = rc(), rc(), rc(), rc(), rc()
    m.hits = OsuHitList(
        [
            OsuHit(o, random.randrange(keys), volume=random.choice([0, 30]))
            for o in gen_offsets(nh, mode)
        ]
    )
    m.holds = OsuHoldList(
        [
            OsuHold(o, random.randrange(keys), ln, hitsound_file=random.choice(["", "a.wav"]))
            for o, ln in zip(gen_offsets(nl, mode), lengths(nl))
        ]
    )
    m.bpms = OsuBpmList(
        [
            OsuBpm(o, b, kiai=random.choice([True, False]))
            for o, b in zip(gen_offsets(nb, mode, 2000.0), bpm_values(nb))
        ]
    )
    m.svs = OsuSvList(
        [OsuSv(o, random.choice([0.5, 1.0, 2.0])) for o in gen_offsets(ns, mode)]
    )
    m.samples = OsuSampleList(
        [OsuSample(o, "s.wav", random.choice([50, 70])) for o in gen_offsets(nsm, mode)]
    )
    return m


def gen_qua(keys, mode):
    m = QuaMap()
    m.tags = ["x"]
    m.song_preview_time = random.choice([0, 1000])
    nh, nl, nb, ns = rc(), rc(), rc(), rc()
    m.hits = QuaHitList(
        [
            QuaHit(o, random.randrange(keys), random.choice([[], ["k1"]]))
            for o in gen_offsets(nh, mode)
        ]
    )
    m.holds = QuaHoldList(
        [
            QuaHold(o, random.randrange(keys), ln, [])
            for o, ln in zip(gen_offsets(nl, mode), lengths(nl))
        ]
    )
    m.bpms = QuaBpmList(
        [QuaBpm(o, b) for o, b in zip(gen_offsets(nb, mode, 2000.0), bpm_values(nb))]
    )
    m.svs = QuaSvList(
        [QuaSv(o, random.choice([0.5, 1.0, 2.0])) for o in gen_offsets(ns, mode)]
    )
    return m


def gen_o2j(keys, mode):
    m = O2JMap()
    nh, nl, nb = rc(), rc(), rc()
    m.hits = O2JHitList(
        [O2JHit(o, random.randrange(keys), pan=random.choice([0, 8])) for o in gen_offsets(nh, mode)]
    )
    m.holds = O2JHoldList(
        [
            O2JHold(o, random.randrange(keys), ln)
            for o, ln in zip(gen_offsets(nl, mode), lengths(nl))
        ]
    )
    m.bpms = O2JBpmList(
        [O2JBpm(o, b) for o, b in zip(gen_offsets(nb, mode, 2000.0), bpm_values(nb))]
    )
    return m


def gen_bms(keys, mode):
    m = BMSMap()
    m.title = b"title"
    m.samples = {b"01": b"a.wav"}
    nh, nl, nb = rc(), rc(), rc()
    m.hits = BMSHitList(
        [
            BMSHit(o, random.randrange(keys), random.choice([b"", b"01"]))
            for o in gen_offsets(nh, mode)
        ]
    )
    m.holds = BMSHoldList(
        [
            BMSHold(o, random.randrange(keys), ln, b"01")
            for o, ln in zip(gen_offsets(nl, mode), lengths(nl))
        ]
    )
    m.bpms = BMSBpmList(
        [BMSBpm(o, b) for o, b in zip(gen_offsets(nb, mode, 2000.0), bpm_values(nb))]
    )
    return m


def gen_sm_map(keys, mode):
    m = SMMap()
    m.description = "d"
    nh, nl, nb = rc(), rc(), rc()
    m.hits = SMHitList([SMHit(o, random.randrange(keys)) for o in gen_offsets(nh, mode)])
    m.holds = SMHoldList(
        [
            SMHold(o, random.randrange(keys), ln)
            for o, ln in zip(gen_offsets(nl, mode), lengths(nl))
        ]
    )
    m.bpms = SMBpmList(
        [SMBpm(o, b) for o, b in zip(gen_offsets(nb, mode, 2000.0), bpm_values(nb))]
    )
    n = rc()
    m.stops = SMStopList([SMStop(o, ln) for o, ln in zip(gen_offsets(n, mode), lengths(n))])
    m.mines = SMMineList([SMMine(o, random.randrange(keys)) for o in gen_offsets(rc(), mode)])
    n = rc()
    m.rolls = SMRollList(
        [SMRoll(o, random.randrange(keys), ln) for o, ln in zip(gen_offsets(n, mode), lengths(n))]
    )
    m.fakes = SMFakeList([SMFake(o, random.randrange(keys)) for o in gen_offsets(rc(), mode)])
    m.lifts = SMLiftList([SMLift(o, random.randrange(keys)) for o in gen_offsets(rc(), mode)])
    m.keysounds = SMKeySoundList(
        [SMKeySound(o, random.randrange(keys)) for o in gen_offsets(rc(), mode)]
    )
    return m


def gen_sm_set(keys, mode):
    ms = SMMapSet()
    ms.title = "sm"
    ms.offset = random.choice([None, 0.0, -0.0, 125.0, -350.5, 1000])
    ms.sample_start = random.choice([0.0, 10000.0, 3, -5.5])
    ms.sample_length = random.choice([10.0, 12345.6, 0.0, 7])
    ms.maps = [gen_sm_map(keys, mode) for _ in range(random.choice([0, 1, 2, 3]))]
    return ms


def gen_o2j_set(keys, mode):
    ms = O2JMapSet()
    ms.title = "o2"
    ms.level = [1, 2, 3]
    ms.maps = [gen_o2j(keys, mode) for _ in range(random.choice([0, 1, 3]))]
    return ms


def gen_base_set(keys, mode):
    return MapSet([gen_base(keys, mode) for _ in range(random.choice([0, 1, 2]))])


GENS = [
    ("base", gen_base),
    ("baseint", gen_base_int),
    ("osu", gen_osu),
    ("qua", gen_qua),
    ("o2j", gen_o2j),
    ("bms", gen_bms),
    ("smmap", gen_sm_map),
    ("smset", gen_sm_set),
    ("o2jset", gen_o2j_set),
    ("baseset", gen_base_set),
]
RATES = [1, 1.0, 0.5, 2, 1.5, 0.75, 1.1, 3, 1e-3, 1234.5]


def poke(x):
    """Mutates a rated result, to show it shares nothing with the original"""
    maps = x.maps if isinstance(x, MapSet) else [x]
    for m in maps:
        for tl in m.objs.values():
            if len(tl):
                tl.df.iloc[0, list(tl.df.columns).index("offset")] = 987654.0
            tl.df["offset"] = tl.df["offset"] + 1
    for f in dataclasses.fields(x):
        v = getattr(x, f.name)
        if isinstance(v, list) and f.name != "maps":
            v.append("poked")
        elif isinstance(v, dict) and f.name != "objs":
            v["poked"] = 1
        elif isinstance(v, TimedList):
            v.df["offset"] = v.df["offset"] - 7


def scenario(tag, x, rate):
    dump_any(tag + ".in", x)
    r = guarded(tag + ".rate", lambda: x.rate(rate))
    if r is None:
        return None
    emit(tag, "same-object", r is x, "type", type(r).__name__)
    dump_any(tag + ".out", r)
    dump_any(tag + ".in-after", x)
    return r



SM_RATES = [1, 1.0, 0.5, 2, 1.5, 0.75, 1.1, 3, 1e-3, 1234.5, np.float64(1.25), 7]


def gen_sm_set_full(keys, mode, i):
    ms = SMMapSet()
    ms.title = f"title{i}"
    ms.subtitle = "sub"
    ms.artist = "artist é"
    ms.title_translit = "tt"
    ms.subtitle_translit = "st"
    ms.artist_translit = "at"
    ms.genre = "g"
    ms.credit = "c"
    ms.banner = "bn.png"
    ms.background = "bg.png"
    ms.lyrics_path = "l.lrc"
    ms.cd_title = "cd.png"
    ms.music = "m.ogg"
    ms.offset = [None, 0.0, -0.0, 125.0, -350.5, 1000, -3, np.float64(62.5), np.int64(40)][i % 9]
    ms.sample_start = [0.0, 10000.0, 3, -5.5, np.float64(777.25), np.int64(9)][i % 6]
    ms.sample_length = [10.0, 12345.6, 0.0, 7, np.float64(1e4)][i % 5]
    ms.display_bpm = random.choice(["", "120", "*"])
    ms.selectable = bool(i % 2)
    ms.bg_changes = "bgc"
    ms.fg_changes = "fgc"
    ms.maps = [gen_sm_map(keys, mode) for _ in range([0, 1, 2, 3, 1][i % 5])]
    return ms


def describe_result(tag, x, r):
    emit(tag, "same-object", r is x, "type", type(r).__name__)
    emit(tag, "attrs", list(vars(r)))
    emit(tag, "maps-list-shared", r.maps is x.maps, "n", len(r.maps))
    emit(tag, "maps-shared", [a is b for a, b in zip(r.maps, x.maps)])
    emit(tag, "map-types", [type(m).__name__ for m in r.maps])
    dump_any(tag + ".out", r)


def sm_generated():
    n = 0
    for i in range(45):
        mode = MODES[i % len(MODES)]
        keys = random.choice([1, 4, 6, 8, 10, 18])
        x = gen_sm_set_full(keys, mode, i)
        rate = SM_RATES[i % len(SM_RATES)]
        tag = f"sm.{i}.{mode}.k{keys}.r{rate!r}"
        dump_any(tag + ".in", x)
        r = guarded(tag + ".rate", lambda: x.rate(rate))
        n += 1
        if r is None:
            continue
        describe_result(tag, x, r)
        dump_any(tag + ".in-after", x)
        kw = guarded(tag + ".rate-kw", lambda: x.rate(by=rate))
        if kw is not None:
            dump_any(tag + ".kw", kw)
        one = guarded(tag + ".one", lambda: x.rate(1))
        if one is not None:
            dump_any(tag + ".one", one)
        a, b = random.choice([(2, 0.5), (1.5, 2), (0.75, 4), (1.1, 1.1)])
        ab = guarded(tag + ".ab", lambda: x.rate(a).rate(b))
        if ab is not None:
            dump_any(tag + f".ab{a!r},{b!r}", ab)
        prod = guarded(tag + ".prod", lambda: x.rate(a * b))
        if prod is not None:
            dump_any(tag + ".prod", prod)
        poke(r)
        r.title = "poked"
        r.offset = 1e9
        dump_any(tag + ".in-after-poke", x)
    emit("sm-generated", n)


def sm_empty_and_edge():
    for rate in (1, 2.5, 0.3):
        x = SMMapSet()
        r = guarded(f"sm.default.r{rate!r}", lambda: x.rate(rate))
        if r is not None:
            describe_result(f"sm.default.r{rate!r}", x, r)
            dump_any(f"sm.default.r{rate!r}.in-after", x)
    # freshly read file text without #OFFSET / with one
    for name, text in [
        ("nooffset", "#TITLE:a;\n#BPMS:0.000=120.000;\n#STOPS:;\n"),
        ("offset", "#TITLE:a;\n#OFFSET:-0.250;\n#SAMPLESTART:12.5;\n#SAMPLELENGTH:8;\n#BPMS:0.000=120.000;\n"),
    ]:
        x = guarded(f"sm.text.{name}.read", lambda: SMMapSet.read(text))
        if x is None:
            continue
        for rate in (1, 1.6):
            r = guarded(f"sm.text.{name}.r{rate!r}", lambda: x.rate(rate))
            if r is not None:
                describe_result(f"sm.text.{name}.r{rate!r}", x, r)
    # rate 0 lies outside the domain; only the exception type is of interest
    x = gen_sm_set_full(4, "sorted", 3)
    guarded("sm.rate0", lambda: x.rate(0))
    dump_any("sm.rate0.in-after", x)


def controls():
    n = 0
    for name, gen in [("baseset", gen_base_set), ("o2jset", gen_o2j_set), ("osu", gen_osu)]:
        for mode in MODES:
            keys = random.choice([4, 7, 10])
            x = gen(keys, mode)
            rate = RATES[n % len(RATES)]
            n += 1
            scenario(f"ctl.{name}.{mode}.k{keys}.r{rate!r}", x, rate)

# -------------------------------------------------------- files and writes ---
R = "rsc/maps/"


def write_any(x):
    if isinstance(x, BMSMap):
        return x.write(BMSChannel.BME)
    return x.write()


def read_back(x, w):
    if isinstance(x, OsuMap):
        return OsuMap.read(w)
    if isinstance(x, SMMapSet):
        return SMMapSet.read(w)
    if isinstance(x, QuaMap):
        return QuaMap.read(w)
    if isinstance(x, BMSMap):
        return BMSMap.read(w.decode("shift_jis").split("\n"), BMSChannel.BME)
    raise TypeError(type(x))


def write_scenario(tag, x, rate):
    r = guarded(tag + ".rate", lambda: x.rate(rate))
    if r is None:
        return
    dump_any(tag + ".rated", r)
    w = guarded(tag + ".write", lambda: write_any(r))
    if w is None:
        return
    emit(tag, "written", type(w).__name__, hashlib.sha256(repr(w).encode()).hexdigest())
    back = guarded(tag + ".read", lambda: read_back(r, w))
    if back is not None:
        dump_any(tag + ".back", back)



def sm_written_generated():
    """Well-formed generated mapsets: rate, write, read back"""
    for i in range(10):
        n = random.choice([0, 3, 10, 20])
        offs = sorted(random.sample(range(0, 64), n))
        ms = SMMapSet()
        ms.title = f"w{i}"
        ms.offset = random.choice([0.0, -250.0, 500.0, 1000])
        ms.sample_start = random.choice([20000.0, 0.0, 1500])
        ms.sample_length = random.choice([10000.0, 12.5])
        maps = []
        for j in range(random.choice([1, 1, 2])):
            sm = SMMap()
            sm.bpms = SMBpmList(
                [SMBpm(ms.offset, 120), SMBpm(ms.offset + 8000, 240)][: random.choice([1, 2])]
            )
            sm.hits = SMHitList([SMHit(ms.offset + o * 125.0, o % 4) for o in offs[::2]])
            sm.holds = SMHoldList(
                [SMHold(ms.offset + o * 125.0, o % 4, 250.0) for o in offs[1::2]]
            )
            sm.stops = SMStopList([SMStop(ms.offset + 2000.0, 500.0)][: random.choice([0, 1])])
            sm.mines = SMMineList([SMMine(ms.offset + o * 125.0, 3 - o % 4) for o in offs[:2]])
            maps.append(sm)
        ms.maps = maps
        write_scenario(f"wgen.sm{i}", ms, [1, 1.25, 0.5, 2, 1.1][i % 5])
        dump_any(f"wgen.sm{i}.in-after", ms)


def sm_files():
    for name, path in [
        ("ICFITU", R + "sm/ICFITU.sm"),
        ("Gravity", R + "sm/Gravity.sm"),
        ("Caravan", R + "sm/Caravan.sm"),
        ("gt_escapes", "tests/unit_tests/sm/maps/gt_escapes.sm"),
    ]:
        x = guarded(f"file.{name}.load", lambda: SMMapSet.read_file(path))
        if x is None:
            continue
        for rate in (1, 1.5, 0.8):
            write_scenario(f"file.{name}.r{rate!r}", x, rate)
        dump_any(f"file.{name}.in-after", x)


def main():
    sm_generated()
    sm_empty_and_edge()
    controls()
    sm_written_generated()
    sm_files()
    text = "\n".join(OUT)
    print("DIGEST", hashlib.sha256(text.encode("utf8", "backslashreplace")).hexdigest())


if __name__ == "__main__":
    import sys

    main()
    if "--dump" in sys.argv:
        sys.stderr.write("\n".join(OUT) + "\n")
