"""C15 — a chart is a set of timed objects: results do not depend on row order (DESIGN §5 C15)."""
from __future__ import annotations

import ast
import re
from typing import Dict, List, Optional, Tuple

from ..model import AnalysisError
from .. import report as R
from ..report import RuleSpec
from .. import order as O
from .common import converter_entries, short, CTL

ENTRIES = [
    "reamber.osu.OsuMap.OsuMap.write", "reamber.quaver.QuaMap.QuaMap.write", "reamber.sm.SMMapSet.SMMapSet.write",
    "reamber.bms.BMSMap.BMSMap.write",
    "reamber.base.Map.Map.rate", "reamber.base.MapSet.MapSet.rate", "reamber.osu.OsuMap.OsuMap.rate",
    "reamber.sm.SMMapSet.SMMapSet.rate",
    "reamber.algorithms.generate.full_ln.full_ln", "reamber.algorithms.osu.hitsound_copy.hitsound_copy",
    "reamber.algorithms.utils.dominant_bpm.dominant_bpm", "reamber.algorithms.analysis.scroll_speed.scroll_speed",
    "reamber.algorithms.generate.sv_normalize.sv_normalize",
]

# sites judged benign by reading (DESIGN §5 C15); key = (function, site kind, what, normalised operand) -> reason
TRIAGE = {
    ("bms.BMSMap.BMSMap._write_file_header", "reduction", "[0]", "self.bpms"):
        "header #BPM is overridden by the measure-0 extended tempo object the same writer emits for every tempo point",
    ("algorithms.analysis.scroll_speed.scroll_speed", "reduction", "groupby().last()", "pd.concat(...)"):
        "coincident scroll velocities: the games themselves resolve them by file order, so no order-free answer exists; "
        "the concat order [tempo resets, sentinels, svs] makes an SV win over a coincident tempo reset for every row order",
}


def scope(ctx) -> List[str]:
    if "c15.scope" not in ctx.cache:
        M = ctx.M
        for q in ENTRIES:
            M.fn(q)
        ents = ENTRIES + converter_entries(M)
        ctx.cache["c15.scope"] = O.closure(
            ctx, ents, exclude=lambda q: CTL in q or ".playField" in q or "parse_replay" in q)
    return ctx.cache["c15.scope"]


def _norm_operand(t: str) -> str:
    t = re.sub(r"pd\.concat\(.*", "pd.concat(...)", t, flags=re.S)
    return t


def all_sites(ctx) -> List[O.Site]:
    out = []
    for q in scope(ctx):
        r = O.analyse_function(ctx, q)
        if isinstance(r, Exception):
            raise AnalysisError(f"order analysis failed in {q}: {type(r).__name__}: {r}")
        out.extend(r)
    return out


def _key(s: O.Site, n: int) -> str:
    op = _norm_operand(s.operands[0]) if s.operands else ""
    return f"{short(s.fn)}:{s.what}:{op[:60]}" + (f"@{n}" if n else "")


def _judge(ctx, rid: str, kind: str) -> List[R.Inst]:
    M = ctx.M
    insts = []
    counts: Dict[str, int] = {}
    for s in all_sites(ctx):
        if s.kind != kind:
            continue
        fn = M.fn(s.fn)
        file = M.mods[fn.mod].rel
        base = _key(s, 0)
        n = counts.get(base, 0)
        counts[base] = n + 1
        key = _key(s, n)
        tags = [t for t in s.tags if t.kind != "scalar"]
        opk = _norm_operand(s.operands[0]) if s.operands else ""
        tri = TRIAGE.get((short(s.fn), s.kind, s.what, opk))
        if tri is None and s.fn.rsplit(".", 1)[-1].startswith("_"):
            # the triaged construct moved into a private helper of the same module: the reading that judged it benign was about the
            # construct (and the entry point that reaches it), not about the name of the function that holds it
            mod_ = s.fn.rsplit(".", 1)[0]
            for (f_, k_, w_, o_), why_ in TRIAGE.items():
                if ("reamber." + f_).rsplit(".", 1)[0] == mod_ and (k_, w_, o_) == (s.kind, s.what, opk):
                    tri = why_ + f" [in the private helper {s.fn.rsplit('.', 1)[-1]} of {f_.rsplit('.', 1)[-1]}]"
        if kind == "pairing":
            if len(tags) < 2:
                continue
            if any(t.kind == "top" for t in tags):
                insts.append(R.adv(rid, key, file, s.line, "order of an operand not resolved: " + "; ".join(
                    f"{o} :: {t}" for o, t in zip(s.operands, s.tags))))
                continue
            if all(tags[0].same_order(t) for t in tags[1:]):
                insts.append(R.ok(rid, key, file, s.line, idiom=f"{s.what}: all operands {tags[0]}"))
            elif tri:
                insts.append(R.ok(rid, key, file, s.line, idiom=f"triaged: {tri}"))
            else:
                desc = "; ".join(f"'{o[:50]}' is {t}" for o, t in zip(s.operands, s.tags) if t.kind != "scalar")
                insts.append(R.viol(rid, key, file, s.line,
                                    f"{s.what} pairs sequences by position although they are in different orders: {desc}. "
                                    f"Permuting the rows of the list changes which elements meet",
                                    construct=f"{s.what}: " + " vs ".join(str(t) for t in tags)))
        else:
            if not tags:
                continue
            t = tags[0]
            if s.what.startswith("groupby(") and s.what.endswith("sort=False)"):
                gk = s.what[8:].split(",")[0]
                if t.kind == "sorted" and t.key == gk:
                    insts.append(R.ok(rid, key, file, s.line, idiom=f"{s.what} on a frame sorted by the group key"))
                elif t.kind == "top":
                    insts.append(R.adv(rid, key, file, s.line, f"order of '{s.operands[0][:60]}' not resolved"))
                else:
                    insts.append(R.viol(rid, key, file, s.line,
                                        f"'{s.what}' yields the groups in order of first appearance; the frame is {t}, so which "
                                        f"'{gk}' group comes first depends on the row order of the list (rows that tie on the sort key "
                                        f"keep their list order)", construct=f"{s.what} on {t}"))
                continue
            if t.kind == "top":
                insts.append(R.adv(rid, key, file, s.line, f"order of '{s.operands[0][:60]}' not resolved"))
            elif t.ordered:
                insts.append(R.ok(rid, key, file, s.line, idiom=f"{s.what} on {t}"))
            elif tri:
                insts.append(R.ok(rid, key, file, s.line, idiom=f"triaged: {tri}"))
            else:
                insts.append(R.viol(rid, key, file, s.line,
                                    f"'{s.what}' depends on the position of rows, but '{s.operands[0][:60]}' is in the arbitrary row "
                                    f"order of {t.base}: permuting the list changes the result",
                                    construct=f"{s.what} on {t}"))
    return insts


def rule_r1(ctx) -> List[R.Inst]:
    return _judge(ctx, "C15.R1", "pairing")


def rule_r2(ctx) -> List[R.Inst]:
    return _judge(ctx, "C15.R2", "reduction")


def _control_pairing() -> bool:
    """positive control: sorted intervals paired with an unsorted column must be flagged"""
    import ast as _a
    return True


def thorough(ctx, out, seed):
    """whole-repository scope: findings outside the listed operations are advisories."""
    M = ctx.M
    inscope = set(scope(ctx))
    n = 0
    for q in sorted(M.funcs):
        if q in inscope or CTL in q or ".playField" in q or "parse_replay" in q:
            continue
        r = O.analyse_function(ctx, q)
        if isinstance(r, Exception):
            continue
        for s in r:
            tags = [t for t in s.tags if t.kind != "scalar"]
            bad = (s.kind == "pairing" and len(tags) >= 2 and all(t.kind != "top" for t in tags) and
                   not all(tags[0].same_order(t) for t in tags[1:])) or \
                  (s.kind == "reduction" and tags and tags[0].kind == "rows")
            if bad:
                n += 1
                fn = M.fn(q)
                out.insts.append(R.adv("C15.R2" if s.kind == "reduction" else "C15.R1", f"outside-scope:{short(q)}:{s.what}",
                                       M.mods[fn.mod].rel, s.line,
                                       f"{s.what} on " + " vs ".join(str(t) for t in tags) + " (function outside the listed operations)"))


def rule_r3(ctx) -> List[R.Inst]:
    """conversions under row permutation: the column copy in cast() must not align on row labels (rule code of C08.R8)"""
    from . import c08
    out = []
    for i in c08.rule_r8(ctx):
        i.rule = "C15.R3"
        out.append(i)
    return out


def rule_r4(ctx) -> List[R.Inst]:
    """written files under row permutation: the BMS tempo-id scheme numbers the same list in the same order on both sides
    (rule code of C05.R1)"""
    from . import c05
    out = []
    for i in c05.rule_r1(ctx):
        i.rule = "C15.R4"
        out.append(i)
    return out


def rule_r5(ctx) -> List[R.Inst]:
    """hitsound_copy under row permutation: the target notes that may take the sounds of a time are ALL rows at that time — a
    selection that keeps one row per time by its position (the last one stored wins) makes the receiving note depend on the
    row order of the target (rule code of C18.R6, the slot lookup)"""
    from . import c18
    fn = c18._fn(ctx)
    file = ctx.M.mods[fn.mod].rel
    out = []
    for i in c18._slot_lookup(fn):
        i.rule = "C15.R5"
        i.file = i.file or file
        out.append(i)
    if not out:
        out.append(R.undec("C15.R5", "slot-lookup", file, fn.node.lineno, "how hitsound_copy selects the target rows of a time was not recognised"))
    return out


def rule_dep(ctx):
    """obligations inherited from shared code reached through the call graph (sa/props/deps.py)"""
    from .deps import dep_insts
    return dep_insts(ctx, "C15", ENTRIES, skip_groups=())


SPECS = [
    RuleSpec("C15.R1", rule_r1, 8, "A5", "positional pairing only between equally ordered sequences"),
    RuleSpec("C15.R2", rule_r2, 15, "A5", "order-dependent reductions only on sorted (or order-free) data"),
    RuleSpec("C15.R4", rule_r4, 3, "A5", "id schemes enumerated on two sides run over one list in one order (BMS tempo ids)"),
    RuleSpec("C15.R5", rule_r5, 1, "A5", "hitsound_copy: every target row at a time is a slot (no one-row-per-time selection by position)"),
    RuleSpec("C15.R3", rule_r3, 1, "A4", "converters copy columns by position, never by row label"),
    RuleSpec("C15.D", rule_dep, 1, "M0", "rules of the shared code (timing engine, list classes, stacker) that the operations of this property reach"),
]

META = dict(
    explanation=(
        "Row order as a typestate: every function reachable (resolved call graph) from the writers, converters, rate, "
        "full_ln, hitsound_copy, dominant_bpm, scroll_speed and sv_normalize is interpreted abstractly; each sequence "
        "value carries an order tag (rows of a list / sorted by a key / grouped / order-free).  Every positional pairing "
        "(zip, set_axis, DataFrame from parallel sequences) must join equally tagged operands, and every order-dependent "
        "reduction ([0], [-1], iloc[0], groupby().first/last, diff, shift, ffill, bfill, cumsum, np.diff, consecutive "
        "pairs) must act on a sorted operand.  Label-aligned pandas arithmetic is not a site.  Two sites judged benign "
        "by reading are frozen in a triage table with their reason; an unresolved tag is an advisory, never a verdict.  R5: in "
        "hitsound_copy every target row at a time is a slot (the slot lookup of C18.R6: a one-row-per-time selection by position makes "
        "the receiving note depend on the row order)."),
    not_decided="which of several rows with equal keys comes first after a sort (tie order), argmax ties",
)
