"""Demo for change 1: SMMap.write (pandas groupby -> stable sort + itertools.groupby).

Run:  cd /tmp/wt7/C03 && PYTHONPATH=/tmp/wt7/C03 /venv/bin/python demo.py
Prints one line `DIGEST <hex>`.
"""
import hashlib
import logging
import os
import random
import warnings
from fractions import Fraction

logging.disable(logging.CRITICAL)

import reamber  # noqa: E402
from reamber.sm.SMMapSet import SMMapSet  # noqa: E402
from reamber.sm.SMMap import SMMap  # noqa: E402
from reamber.sm.SMMapMeta import SMMapChartTypes  # noqa: E402
from reamber.sm.lists.SMBpmList import SMBpmList  # noqa: E402
from reamber.sm.lists.SMStopList import SMStopList  # noqa: E402
from reamber.sm.lists.notes import (  # noqa: E402
    SMHitList,
    SMHoldList,
    SMFakeList,
    SMLiftList,
    SMKeySoundList,
    SMMineList,
    SMRollList,
)

ROOT = os.path.dirname(os.path.dirname(os.path.abspath(reamber.__file__)))
OUT = []


def emit(*parts):
    OUT.append(" | ".join(str(p) for p in parts))


def dump_df(df):
    return repr(
        (
            list(map(str, df.columns)),
            [str(t) for t in df.dtypes],
            [repr(i) for i in df.index],
            [[repr(v) for v in row] for row in df.itertuples(index=False)],
        )
    )


def dump_map(m):
    parts = [
        repr(
            (
                m.chart_type,
                m.description,
                m.difficulty,
                m.difficulty_val,
                list(m.groove_radar),
            )
        )
    ]
    for name in sorted(m.objs):
        parts.append(name + "=" + dump_df(m.objs[name].df))
    return "\n".join(parts)


def dump_mapset(ms):
    meta = [
        (k, repr(getattr(ms, k)))
        for k in (
            "title subtitle artist title_translit subtitle_translit artist_translit "
            "genre credit banner background lyrics_path cd_title music offset "
            "sample_start sample_length display_bpm selectable bg_changes fg_changes"
        ).split()
    ]
    return repr(meta) + "\n" + "\n".join(dump_map(m) for m in ms.maps)


def attempt(label, fn):
    with warnings.catch_warnings(record=True) as w:
        warnings.simplefilter("always")
        try:
            res = fn()
            emit(label, "OK", res if isinstance(res, str) else type(res).__name__)
        except Exception as e:  # noqa
            res = None
            emit(label, "EXC", type(e).__name__)
        emit(label, "WARNINGS", sorted({x.category.__name__ for x in w}))
    return res


def exercise(label, ms, reread=True):
    """Writes every map and the set, checks inputs afterwards, reads back."""
    before = dump_mapset(ms)
    for i, m in enumerate(ms.maps):
        attempt(f"{label}/map{i}.write", lambda m=m: repr(m.write()))
    text = attempt(f"{label}/set.write", ms.write)
    after = dump_mapset(ms)
    emit(label, "INPUT_UNCHANGED", before == after)
    emit(label, "INPUT_AFTER", after)
    if text is None or not reread:
        return

    def back():
        ms2 = SMMapSet.read(text)
        t2 = ms2.write()
        ms3 = SMMapSet.read(t2)
        return "\n".join(
            [dump_mapset(ms2), repr(t2 == text), repr(ms3.write() == t2), t2]
        )

    attempt(f"{label}/reread", back)


# --------------------------------------------------------------------------- #
# Generated mapsets
# --------------------------------------------------------------------------- #
CHART_KEYS = {
    SMMapChartTypes.DANCE_SINGLE: 4,
    SMMapChartTypes.DANCE_DOUBLE: 8,
    SMMapChartTypes.DANCE_SOLO: 6,
    SMMapChartTypes.DANCE_COUPLE: 4,
    SMMapChartTypes.DANCE_THREEPANEL: 3,
    SMMapChartTypes.DANCE_ROUTINE: 8,
    SMMapChartTypes.KB7_SINGLE: 7,
}
LISTS = dict(
    hits=SMHitList,
    fakes=SMFakeList,
    lifts=SMLiftList,
    keysounds=SMKeySoundList,
    mines=SMMineList,
)
HOLD_LISTS = dict(holds=SMHoldList, rolls=SMRollList)


class Tempo:
    """A tempo list given as [(beat, bpm)], beat 0 at `offset` ms."""

    def __init__(self, offset, points):
        self.points = points
        self.times = []
        t = float(offset)
        prev_beat, prev_bpm = points[0]
        for beat, bpm in points:
            t += float(beat - prev_beat) * 60000.0 / prev_bpm
            self.times.append(t)
            prev_beat, prev_bpm = beat, bpm

    def time(self, beat):
        ix = 0
        for i, (b, _) in enumerate(self.points):
            if b <= beat:
                ix = i
        b, bpm = self.points[ix]
        return self.times[ix] + float(beat - b) * 60000.0 / bpm


def gen_beats(rng, n, dens, max_measure):
    out = []
    for _ in range(n):
        d = rng.choice(dens)
        measure = rng.randrange(max_measure)
        out.append(measure * 4 + Fraction(rng.randrange(4 * d), d))
    return out


def gen_mapset(rng, ix):
    offset = rng.choice([0.0, 0.0, 100.0, -250.5, 1234.0, 37.25])
    aligned = ix % 3 != 2
    n_bpm = rng.choice([1, 1, 2, 3, 4])
    points = [(Fraction(0), rng.choice([60.0, 120.0, 150.0, 175.5, 200.0, 240.0]))]
    for _ in range(n_bpm - 1):
        step = (
            4 * rng.randrange(1, 4)
            if aligned
            else rng.choice([1, 2, 3, 5, Fraction(1, 2), Fraction(3, 2), Fraction(7)])
        )
        points.append(
            (
                points[-1][0] + step,
                rng.choice([60.0, 90.0, 120.0, 133.0, 180.0, 240.0, 300.5]),
            )
        )
    tempo = Tempo(offset, points)
    bpm_rows = [dict(offset=t, bpm=b) for t, (_, b) in zip(tempo.times, points)]

    dens_pool = rng.choice(
        [
            [1],
            [1, 2, 4],
            [1, 2, 3, 4, 6, 8, 12, 16],
            [1, 2, 3, 4, 6, 8, 12, 16, 24, 32, 48, 64, 96],
            [5, 7, 9, 4],
            [5, 7, 11, 13, 3, 32],
            [48, 64, 96, 7],
        ]
    )
    max_measure = rng.choice([1, 2, 4, 8, 15])
    n_maps = rng.choice([1, 1, 2, 3])
    ms = SMMapSet()
    ms.title = f"T{ix} é"
    ms.subtitle = rng.choice(["", "sub"])
    ms.artist = f"A{ix}"
    ms.title_translit = rng.choice(["", "tt"])
    ms.artist_translit = rng.choice(["", "at"])
    ms.genre = rng.choice(["", "g"])
    ms.credit = "c"
    ms.music = "m.ogg"
    ms.background = rng.choice(["", "bg.png"])
    ms.offset = offset
    ms.sample_start = rng.choice([0.0, 1500.0, 12345.0])
    ms.sample_length = rng.choice([10.0, 10000.0, 7500.5])
    ms.display_bpm = rng.choice(["", "120", "*"])
    ms.selectable = rng.random() < 0.7
    maps = []
    for mi in range(n_maps):
        m = SMMap()
        m.chart_type = rng.choice(sorted(CHART_KEYS))
        keys = CHART_KEYS[m.chart_type]
        m.description = f"d{mi}"
        m.difficulty = rng.choice(["Easy", "Hard", "Challenge", "Edit"])
        m.difficulty_val = rng.randrange(1, 20)
        m.groove_radar = [round(rng.random(), 3) for _ in range(5)]
        m.bpms = SMBpmList.from_dict(bpm_rows)
        # ix % 7 == 0 : an empty chart, ix % 7 == 1 : a single kind only
        kinds = list(LISTS) + list(HOLD_LISTS)
        if ix % 7 == 0 and mi == 0:
            kinds = []
        elif ix % 7 == 1:
            kinds = [rng.choice(kinds)]
        else:
            kinds = [k for k in kinds if rng.random() < 0.75]
        # Most charts are collision free (a column holds one object at a time),
        # every 4th one lets objects overwrite each other.
        collide = ix % 4 == 3
        busy = {c: [] for c in range(keys)}

        def free(c, lo, hi):
            if collide:
                return True
            if all(hi < a or b < lo for a, b in busy[c]):
                busy[c].append((lo, hi))
                return True
            return False

        for name in kinds:
            n = rng.choice([0, 1, 2, 5, 12, 30])
            beats = gen_beats(rng, n, dens_pool, max_measure)
            if rng.random() < 0.5:
                beats.sort()  # otherwise the rows stay unsorted
            if collide and beats and rng.random() < 0.5:
                beats.append(beats[0])  # exact tie inside one list
            rows = []
            for b in beats:
                c = rng.randrange(keys)
                if name in LISTS:
                    if free(c, b, b):
                        rows.append(dict(offset=tempo.time(b), column=c))
                else:
                    d = rng.choice(dens_pool)
                    ln = Fraction(rng.randrange(1, 6 * d), d)
                    if free(c, b, b + ln):
                        h, t = tempo.time(b), tempo.time(b + ln)
                        rows.append(dict(offset=h, column=c, length=t - h))
            cls = LISTS[name] if name in LISTS else HOLD_LISTS[name]
            setattr(m, name, cls.from_dict(rows))
        maps.append(m)
    ms.maps = maps
    return ms


def main():
    rng = random.Random(20261001)
    random.seed(20261001)

    # 1. generated mapsets: every chart type, every object kind, empty charts,
    #    ties, unsorted rows, tempo changes on and off the measure lines,
    #    measures that need the 384 cap (1/5 with 1/7 ...), empty measures.
    for ix in range(70):
        ms = gen_mapset(rng, ix)
        exercise(f"gen{ix}", ms)
        if ix % 5 == 0:
            r = attempt(f"gen{ix}/rate", lambda: ms.rate(rng.choice([0.75, 1.5, 2.0])))
            if r is not None:
                exercise(f"gen{ix}/rated", r)

    # 2. hand made edge cases
    def single(chart_type, hits, bpm=120.0, offset=0.0, **more):
        ms_ = SMMapSet()
        ms_.offset = offset
        m_ = SMMap()
        m_.chart_type = chart_type
        m_.bpms = SMBpmList.from_dict([dict(offset=offset, bpm=bpm)])
        if hits:
            m_.hits = SMHitList.from_dict(
                [dict(offset=o, column=c) for o, c in hits]
            )
        for k, v in more.items():
            setattr(m_, k, v)
        ms_.maps = [m_]
        return ms_

    exercise("edge/empty", single("dance-single", []))
    exercise("edge/one", single("dance-single", [(0.0, 0)]))
    exercise("edge/late", single("dance-single", [(2000.0 * 9, 3)]))
    exercise("edge/beat2", single("dance-single", [(1000.0, 1)]))
    exercise(
        "edge/overwrite",
        single(
            "dance-single",
            [(500.0, 2), (500.0, 2)],
            mines=SMMineList.from_dict([dict(offset=500.0, column=2)]),
            lifts=SMLiftList.from_dict([dict(offset=500.0, column=2)]),
        ),
    )
    exercise(
        "edge/cap",
        single(
            "kb7-single",
            [(500.0 * Fraction(k, 7), k % 7) for k in range(1, 7)]
            + [(500.0 * Fraction(k, 5), k) for k in range(1, 5)]
            + [(500.0 * (1 + Fraction(k, 9)), k % 7) for k in range(1, 9)],
        ),
    )
    exercise("edge/negoffset", single("dance-solo", [(-100.0, 5), (150.0, 0)], offset=-100.0))
    exercise("edge/col_out_of_range", single("dance-threepanel", [(0.0, 3)]), reread=False)
    exercise("edge/unsupported_type", single("pump-single", [(0.0, 0)]), reread=False)
    exercise("edge/unsupported_empty", single("pump-single", []), reread=False)
    exercise("edge/unsupported_gap", single("pump-single", [(9000.0, 0)]), reread=False)
    exercise("edge/before_first_bpm", single("dance-single", [(-500.0, 0)]), reread=False)
    no_bpm = SMMapSet()
    no_bpm.offset = 0.0
    no_bpm.maps = [SMMap()]
    exercise("edge/no_bpm", no_bpm, reread=False)
    exercise("edge/no_maps", SMMapSet(), reread=False)

    # 3. read from file, rate changed
    for name in ("ICFITU", "Escapes", "Gravity"):
        ms = attempt(
            f"file/{name}/read",
            lambda: SMMapSet.read_file(os.path.join(ROOT, "rsc/maps/sm", name + ".sm")),
        )
        if ms is None:
            continue
        exercise(f"file/{name}", ms)
        if name == "ICFITU":
            r = attempt(f"file/{name}/rate", lambda: ms.rate(1.25))
            if r is not None:
                exercise(f"file/{name}/rated", r)

    # 4. obtained by conversion
    from reamber.osu.OsuMap import OsuMap
    from reamber.quaver.QuaMap import QuaMap
    from reamber.bms.BMSMap import BMSMap
    from reamber.algorithms.convert import OsuToSM, QuaToSM, BMSToSM

    def conv(label, fn):
        ms_ = attempt(label + "/convert", fn)
        if ms_ is not None:
            # attempt() stored the repr already; only mapsets are exercised
            if isinstance(ms_, SMMapSet):
                exercise(label, ms_)

    conv(
        "conv/osu/AddictionCut",
        lambda: OsuToSM.convert(
            OsuMap.read_file(os.path.join(ROOT, "rsc/maps/osu/AddictionCut.osu"))
        ),
    )
    conv(
        "conv/osu/CheckItOut",
        lambda: OsuToSM.convert(
            OsuMap.read_file(os.path.join(ROOT, "rsc/maps/osu/CheckItOut.osu"))
        ),
    )
    conv(
        "conv/qua/CarryMeAway",
        lambda: QuaToSM.convert(
            QuaMap.read_file(os.path.join(ROOT, "rsc/maps/qua/CarryMeAway.qua"))
        ),
    )
    conv(
        "conv/bms/searoad",
        lambda: BMSToSM.convert(
            BMSMap.read_file(os.path.join(ROOT, "rsc/maps/bms/searoad.bml"))
        ),
    )

    text = "\n".join(OUT)
    print("DIGEST", hashlib.sha256(text.encode("utf8")).hexdigest())
    if os.environ.get("DEMO_DUMP"):
        with open(os.environ["DEMO_DUMP"], "w", encoding="utf8") as f:
            f.write(text)


if __name__ == "__main__":
    main()
