"""Extractors shared by C02 (StepMania read) and C03 (StepMania write)."""
from __future__ import annotations

import ast
from typing import Dict, List, Optional, Tuple

from ..model import AnalysisError, NotLiteral, walk_no_nested, params_of, HOLDLIST
from .. import report as R
from .. import codec as C
from .common import fn_loc, unparse, returns_of

SET_META = "reamber.sm.SMMapSetMeta.SMMapSetMeta"
MAP_META = "reamber.sm.SMMapMeta.SMMapMeta"
SMMAP = "reamber.sm.SMMap.SMMap"
SMSET = "reamber.sm.SMMapSet.SMMapSet"
SMCONST = "reamber.sm.SMConst.SMConst"
RACONST = "reamber.base.RAConst.RAConst"


def resolver(M, mod, cls):
    def res(f):
        if isinstance(f, ast.Attribute):
            r = M.resolve_expr(mod, f, cls)
            if r and r[0] == "func":
                return ".".join(r[1].split(".")[-2:])
            if isinstance(f.value, ast.Name) and f.value.id in ("self", "cls") and cls:
                m = M.method(cls, f.attr)
                if m:
                    return ".".join(m.split(".")[-2:])
        if isinstance(f, ast.Name):
            r = M.resolve(mod, f.id)
            if r and r[0] == "func":
                return r[1].split(".")[-1]
        return None
    return res


def header_reader_table(ctx):
    """tag -> ('field', field, ops, node) | ('local', var, call text, node)"""
    M = ctx.M
    fn = M.fn(SET_META + "._read_metadata")
    res = resolver(M, fn.mod, fn.cls)

    def is_key(n):
        si = C.subscript_const_index(n)
        return si is not None and si[1] == 0

    def is_val(n):
        si = C.subscript_const_index(n)
        return si is not None and si[1] == 1

    table = {}
    for const, body, ifn in C.eq_chain(fn.node.body, is_key):
        tag = C.const_str(const)
        if tag is None or len(body) != 1 or not isinstance(body[0], ast.Assign):
            continue
        a = body[0]
        t = a.targets[0]
        if C.self_attr(t):
            v = a.value
            try:
                if isinstance(v, ast.IfExp) and isinstance(v.test, ast.Compare) and isinstance(v.test.ops[0], ast.Eq) and \
                        isinstance(v.body, ast.Constant) and isinstance(v.orelse, ast.Constant):
                    leaf, ops = C.chain(v.test.left, is_val, res)
                    ops = ops + [f"eq:{C.const_str(v.test.comparators[0])}:{v.body.value}:{v.orelse.value}"]
                elif isinstance(v, ast.Compare) and isinstance(v.ops[0], ast.Eq):
                    leaf, ops = C.chain(v.left, is_val, res)
                    ops = ops + [f"eq:{C.const_str(v.comparators[0])}:True:False"]
                else:
                    leaf, ops = C.chain(v, is_val, res)
            except C.Unknown as e:
                ops = ["?" + str(e)]
            table[tag] = ("field", C.self_attr(t), ops, ifn)
        elif isinstance(t, ast.Name):
            table[tag] = ("local", t.id, unparse(a.value), ifn)
    return table, fn


def header_writer_elements(ctx):
    """list of (element node, tokens) of the list _write_metadata returns"""
    M = ctx.M
    fn = M.nfn(SET_META + "._write_metadata", subst="alias")
    rets = returns_of(fn.node)
    if len(rets) != 1 or not isinstance(rets[0].value, ast.List):
        raise AnalysisError("SM header writer: expected a single returned list literal")
    return [(el, None) for el in rets[0].value.elts], fn


def header_writer_table(ctx):
    """tag -> (field or None, ops, element node); elements that are not of the form
    '#TAG:' <one value> ';' are returned in ``odd``."""
    M = ctx.M
    els, fn = header_writer_elements(ctx)
    res = resolver(M, fn.mod, fn.cls)
    table = {}
    odd = []
    for el, _ in els:
        if isinstance(el, ast.IfExp):
            odd.append(el)
            continue
        toks = C.fstring_tokens(el)
        if not toks or toks[0][0] != "lit" or not toks[0][1].startswith("#") or ":" not in toks[0][1]:
            odd.append(el)
            continue
        tag = toks[0][1].split(":", 1)[0]
        vals = [t for t in toks if t[0] == "val"]
        if len(vals) == 1:
            e = vals[0][1]
            try:
                if isinstance(e, ast.IfExp) and C.self_attr(e.test) and C.const_str(e.body) is not None \
                        and C.const_str(e.orelse) is not None:
                    table[tag] = (C.self_attr(e.test), [f"ifexp:{C.const_str(e.body)}:{C.const_str(e.orelse)}"], el)
                    continue
                leaf, ops = C.chain(e, lambda n: C.self_attr(n) is not None, res)
                table[tag] = (C.self_attr(leaf), ops, el)
            except C.Unknown:
                # one value behind a wrapper that is not modelled: which field it is and what happens to it is not read off
                flds = sorted({C.self_attr(x) for x in ast.walk(e) if C.self_attr(x)})
                table[tag] = (flds[0] if len(flds) == 1 else None, ["<unmodelled>" if len(flds) == 1 else "<complex>"], el)
        else:
            table[tag] = (None, ["<complex>"], el)
    return table, odd, fn


def reciprocal_constants(ctx) -> Tuple[bool, str]:
    M = ctx.M
    a = M.class_const(RACONST, "SEC_TO_MSEC")
    b = M.class_const(RACONST, "MSEC_TO_SEC")
    def body_uses(name, const):
        fn = M.fn(RACONST + "." + name)
        return any(isinstance(n, ast.Attribute) and n.attr == const for n in ast.walk(fn.node)) and \
            any(isinstance(n, ast.BinOp) and isinstance(n.op, ast.Mult) for n in ast.walk(fn.node))
    good = abs(a * b - 1.0) < 1e-12 and body_uses("sec_to_msec", "SEC_TO_MSEC") and body_uses("msec_to_sec", "MSEC_TO_SEC")
    return good, f"SEC_TO_MSEC={a} MSEC_TO_SEC={b}"


def sm_symbols(ctx) -> Dict[str, str]:
    M = ctx.M
    out = {}
    for st in M.cls(SMCONST).node.body:
        if isinstance(st, (ast.Assign, ast.AnnAssign)):
            name = (st.targets[0] if isinstance(st, ast.Assign) else st.target).id
            if name.endswith("_STRING") or "_STRING_" in name:
                out[name] = M.class_const(SMCONST, name)
    return out


def writer_parallel_lists(ctx):
    """The three parallel list literals of SMMap.write as sequences of
    (slot, attribute | symbol-constant name)."""
    M = ctx.M
    fn = M.nfn(SMMAP + ".write", subst="alias")
    target = None
    for n in walk_no_nested(fn.node):
        if isinstance(n, ast.Assign) and isinstance(n.value, ast.List) and len(n.value.elts) == 3:
            target = n
            break
    if target is None:
        raise AnalysisError("SMMap.write: the list of three parallel sequences was not found")
    seqs = []
    for el in target.value.elts:
        lst = el
        if isinstance(el, ast.Call):  # tm.beats([...], snapper=...)
            lst = el.args[0] if el.args else None
        if not isinstance(lst, ast.List):
            raise AnalysisError("SMMap.write: parallel sequence is not a list literal")
        seq = []
        for x in lst.elts:
            if not isinstance(x, ast.Starred):
                raise AnalysisError("SMMap.write: non-starred element in a parallel sequence")
            v = x.value
            if isinstance(v, ast.Attribute) and isinstance(v.value, ast.Attribute) and C.self_attr(v.value):
                seq.append((C.self_attr(v.value), v.attr, x))
            elif isinstance(v, ast.BinOp) and isinstance(v.op, ast.Mult):
                lstn, ln = (v.left, v.right) if isinstance(v.left, ast.List) else (v.right, v.left)
                # the symbol repeated once per row of a list: len(self.<list>) or len(self.<list>.<a column of it>)
                lenarg = ln.args[0] if isinstance(ln, ast.Call) and unparse(ln.func) == "len" and ln.args else None
                slot_ = C.self_attr(lenarg) if lenarg is not None else None
                if slot_ is None and isinstance(lenarg, ast.Attribute) and C.self_attr(lenarg.value):
                    slot_ = C.self_attr(lenarg.value)
                if isinstance(lstn, ast.List) and len(lstn.elts) == 1 and isinstance(lstn.elts[0], ast.Attribute) and slot_:
                    seq.append((slot_, lstn.elts[0].attr, x))
                else:
                    raise AnalysisError(f"SMMap.write: symbol element not recognised: {unparse(v)[:60]}")
            else:
                raise AnalysisError(f"SMMap.write: element not recognised: {unparse(v)[:60]}")
        seqs.append(seq)
    return seqs, target, fn


def hold_slots(ctx) -> List[str]:
    M = ctx.M
    return [s for s, c in M.map_slots(SMMAP).items() if HOLDLIST in M.mro(c)]


def note_slots(ctx) -> List[str]:
    from ..model import NOTELIST
    M = ctx.M
    return [s for s, c in M.map_slots(SMMAP).items() if NOTELIST in M.mro(c)]
