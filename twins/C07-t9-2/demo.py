"""Demo for C07 / change 2: O2JEventPackage.read_events_note.

Calls read_events_note directly on a few hundred generated event blocks (all
note types, disabled slots, odd lengths, open / missing long note heads, a
shared hold buffer) and reads several dozen generated well-formed OJN byte
strings plus the two charts of the repository through O2JMapSet.read; hashes a
canonical dump of all results, the debug log of the o2jam reader included.
"""
import hashlib
import logging
import os
import random
import struct
import warnings

import pandas as pd

from reamber.o2jam.O2JEventPackage import O2JEventPackage, O2JConst
from reamber.o2jam.O2JHold import O2JHold
from reamber.o2jam.O2JMapSet import O2JMapSet



class _Capture(logging.Handler):
    def emit(self, record):
        OUT.append("LOG " + record.levelname + " " + record.getMessage())


_lg = logging.getLogger("reamber.o2jam.O2JEventPackage")
_lg.setLevel(logging.DEBUG)
_lg.propagate = False
_lg.addHandler(_Capture())
warnings.simplefilter("ignore")
random.seed(7072)
OUT = []


def emit(*a):
    OUT.append(" ".join(str(x) for x in a))


def canon(v):
    if isinstance(v, float):
        return f"float:{v.hex() if v == v else 'nan'}"
    if isinstance(v, (list, tuple)):
        return f"{type(v).__name__}[" + ",".join(canon(x) for x in v) + "]"
    return f"{type(v).__name__}:{v!r}"


META_FIELDS = [
    "song_id", "signature", "encode_version", "genre", "bpm", "level",
    "event_count", "note_count", "measure_count", "package_count",
    "old_encode_version", "old_song_id", "old_genre", "bmp_size",
    "old_file_version", "title", "artist", "creator", "ojm_file",
    "cover_size", "duration", "note_offset", "cover_offset",
]


def dump_meta(tag, m):
    for f in META_FIELDS:
        emit(tag, f, canon(getattr(m, f)))


def dump_df(tag, df: pd.DataFrame):
    emit(tag, "columns", list(df.columns), "dtypes", [str(t) for t in df.dtypes])
    emit(tag, "index", type(df.index).__name__, list(df.index))
    for row in df.itertuples(index=True, name=None):
        emit(tag, "row", ",".join(canon(x.item() if hasattr(x, "item") else x) for x in row))


def dump_mapset(tag, ms):
    dump_meta(tag, ms)
    emit(tag, "n_maps", len(ms.maps))
    for i, m in enumerate(ms.maps):
        for name in ("hits", "holds", "bpms"):
            lst = getattr(m, name)
            emit(tag, i, name, type(lst).__name__)
            dump_df(f"{tag}.{i}.{name}", lst.df)


# ---------------------------------------------------------------- generators
def rand_text(n, mode):
    """n raw bytes for a CHAR[n] field"""
    if mode == "empty":
        return b"\x00" * n
    if mode == "full":
        return bytes(random.choice(b"abcXYZ 0189-_'") for _ in range(n))
    if mode == "padded":
        k = random.randint(0, n - 1)
        return bytes(random.choice(b"Song Title ArtisT!") for _ in range(k)).ljust(n, b"\x00")
    if mode == "inner_nul":
        return bytes(random.choice([0, 0, 65, 66, 32, 122]) for _ in range(n))
    if mode == "garbage_after_nul":
        k = random.randint(0, n - 1)
        s = bytes(random.choice(b"hello") for _ in range(k)) + b"\x00"
        s += bytes(random.randrange(256) for _ in range(n - len(s)))
        return s[:n]
    if mode == "non_ascii":
        return bytes(random.choice([0xB0, 0xA1, 0xC7, 0xD1, 0x41, 0x20, 0x00, 0xFF, 0x7F, 0x80])
                     for _ in range(n))
    return bytes(random.randrange(256) for _ in range(n))


TEXT_MODES = ["empty", "full", "padded", "inner_nul", "garbage_after_nul", "non_ascii", "any"]


def rand_i32(mode):
    if mode == "small":
        return random.randint(0, 5000)
    if mode == "edge":
        return random.choice([0, 1, -1, 2**31 - 1, -(2**31), 255, 256, 65535, 65536])
    return random.randint(-(2**31), 2**31 - 1)


def rand_i16(mode):
    if mode == "small":
        return random.randint(0, 60)
    if mode == "edge":
        return random.choice([0, 1, -1, 32767, -32768, 255, 256])
    return random.randint(-32768, 32767)


def rand_f32(mode):
    if mode == "small":
        return random.choice([60.0, 120.0, 178.0, 222.22, 90.5, 333.333, 2.9])
    if mode == "edge":
        return random.choice([0.0, -0.0, 1e-40, 3.4e38, -3.4e38, float("inf"), float("-inf"), 1.0])
    return struct.unpack("<f", struct.pack("<I", random.choice(
        [random.getrandbits(32) & 0x7F7FFFFF, random.getrandbits(32) & 0xFF7FFFFF])))[0]


def make_header(mode, bpm=None, package_count=None, text_mode=None):
    tm = lambda: text_mode or random.choice(TEXT_MODES)
    sig = random.choice([b"ojn\x00", b"ojn\x00", rand_text(4, tm())])
    pc = package_count if package_count is not None else [rand_i32(mode) for _ in range(3)]
    b = b"".join([
        struct.pack("<i", rand_i32(mode)),
        sig,
        struct.pack("<f", rand_f32(mode)),
        struct.pack("<i", rand_i32(mode)),
        struct.pack("<f", bpm if bpm is not None else rand_f32(mode)),
        struct.pack("<4h", *[rand_i16(mode) for _ in range(4)]),
        struct.pack("<3i", *[rand_i32(mode) for _ in range(3)]),
        struct.pack("<3i", *[rand_i32(mode) for _ in range(3)]),
        struct.pack("<3i", *[rand_i32(mode) for _ in range(3)]),
        struct.pack("<3i", *pc),
        struct.pack("<h", rand_i16(mode)),
        struct.pack("<h", rand_i16(mode)),
        rand_text(20, tm()),
        struct.pack("<i", rand_i32(mode)),
        struct.pack("<i", rand_i32(mode)),
        rand_text(64, tm()),
        rand_text(32, tm()),
        rand_text(32, tm()),
        rand_text(32, tm()),
        struct.pack("<i", rand_i32(mode)),
        struct.pack("<3i", *[rand_i32(mode) for _ in range(3)]),
        struct.pack("<3i", *[rand_i32(mode) for _ in range(3)]),
        struct.pack("<i", rand_i32(mode)),
    ])
    assert len(b) == 300
    return b


SLOTS = [1, 2, 3, 4, 6, 8, 12, 16, 24, 48, 192, 5, 7]


def pkg(measure, channel, events):
    return struct.pack("<ihh", measure, channel, len(events)) + b"".join(events)


def note_ev(kind):
    vp = random.randrange(256)
    return struct.pack("<hBB", random.choice([1, 2, 300, -5, 256, 32767]), vp, kind)


NOTE_OFF = b"\x00\x00" + b"\x00\x00"


def make_level(n_measures, density, n_bpm, bpm_after_last=True):
    """returns list of packages (bytes) of one difficulty"""
    pkgs = []  # (measure, order, bytes)
    open_ln = [False] * 7
    for measure in range(n_measures):
        cols = list(range(7))
        random.shuffle(cols)
        for col in cols:
            if random.random() > density:
                continue
            slots = random.choice(SLOTS)
            evs = []
            for s in range(slots):
                r = random.random()
                if r < 0.55 and slots > 1:
                    # disabled slot; sometimes with non-zero junk in the other 2 bytes
                    evs.append(NOTE_OFF if random.random() < 0.8
                               else b"\x00\x00" + bytes([random.randrange(256), random.choice([0, 2, 3])]))
                elif open_ln[col]:
                    evs.append(note_ev(3))
                    open_ln[col] = False
                elif r < 0.8:
                    evs.append(note_ev(0))
                else:
                    evs.append(note_ev(2))
                    open_ln[col] = True
            pkgs.append((measure, pkg(measure, col + 2, evs)))
            if not open_ln[col] and not any(e[3] == 2 for e in evs) and random.random() < 0.15:
                # a second package of the same measure and channel, hits only
                slots2 = random.choice(SLOTS)
                pkgs.append((measure, pkg(measure, col + 2, [
                    note_ev(0) if random.random() < 0.3 else NOTE_OFF for _ in range(slots2)])))
    # close the long notes
    for col in range(7):
        if open_ln[col]:
            slots = random.choice(SLOTS)
            at = random.randrange(slots)
            pkgs.append((n_measures, pkg(n_measures, col + 2,
                                         [note_ev(3) if s == at else NOTE_OFF for s in range(slots)])))
    # tempo
    hi = n_measures + (4 if bpm_after_last else 0)
    for _ in range(n_bpm):
        measure = random.randint(0, max(hi, 0))
        slots = random.choice(SLOTS)
        evs = [struct.pack("<f", random.choice([0.0, 0.0, 60.0, 120.5, 200.0, 33.3, 999.0, 178.0]))
               for _ in range(slots)]
        if random.random() < 0.3:
            evs[0] = struct.pack("<f", random.uniform(20, 600))
        pkgs.append((measure, pkg(measure, 1, evs)))
    # autoplay / keysound channels are skipped by the reader
    for _ in range(random.randint(0, 3)):
        measure = random.randint(0, max(n_measures, 0))
        slots = random.choice(SLOTS)
        pkgs.append((measure, pkg(measure, random.randint(9, 22), [note_ev(0) for _ in range(slots)])))
    pkgs.sort(key=lambda x: x[0])
    return [p for _, p in pkgs]


def make_file(mode, shape):
    lvls = [make_level(*s) for s in shape]
    head = make_header(mode, bpm=random.choice([60.0, 120.0, 178.0, 222.22, 95.5]),
                       package_count=[len(l) for l in lvls])
    tail = random.choice([b"", b"", bytes(random.randrange(256) for _ in range(random.randint(1, 50)))])
    return head + b"".join(b"".join(l) for l in lvls) + tail


# -------------------------------------------------------------------- run
def dump_item(tag, it):
    d = it.data
    emit(tag, type(it).__name__, "index", list(d.index), "dtype", str(d.dtype),
         "values", ",".join(canon(x.item() if hasattr(x, "item") else x) for x in d.tolist()))
    for attr in ("measure", "tail_measure"):
        if hasattr(it, attr):
            emit(tag, attr, canon(getattr(it, attr)))


def rand_block(n_events, style):
    evs = []
    for _ in range(n_events):
        if style == "valid":
            kind = random.choice([0, 0, 2, 3])
        elif style == "hits":
            kind = 0
        else:
            kind = random.choice([0, 1, 2, 3, 4, 0x30, 0xFF])
        sample = random.choice([0, 0, 1, 255, 256, -1, -256, 0x00FF, 0x7F00, 5])
        evs.append(struct.pack("<hBB", sample, random.randrange(256), kind))
    return b"".join(evs)


def direct_calls():
    n = 0
    for style in ("valid", "hits", "any"):
        for n_events in (0, 1, 2, 3, 4, 5, 7, 8, 12, 16, 48, 192):
            for rep in range(3):
                data = rand_block(n_events, style)
                data += bytes(random.randrange(256) for _ in range(random.choice([0, 0, 1, 2, 3])))
                if rep == 2:
                    data = bytearray(data)
                column = random.choice([0, 1, 2, 3, 4, 5, 6, 6, 9, -1])
                curr_measure = random.choice([0, 1, 7, 250, 3.0, 2.5, 0.0])
                buf = {}
                for c in random.sample(range(7), random.randint(0, 3)) + random.choice([[], [column]]):
                    h = O2JHold(volume=c, pan=c + 1, column=c, length=-1, offset=0)
                    h.measure = c / 8
                    buf[c] = h
                held = dict(buf)
                before = bytes(data)
                tag = f"D{n}"
                emit(tag, "args", type(data).__name__, len(data), column, canon(curr_measure), list(buf))
                try:
                    notes = O2JEventPackage.read_events_note(data, column, buf, curr_measure)
                    emit(tag, "ret", type(notes).__name__, len(notes))
                    for j, it in enumerate(notes):
                        dump_item(f"{tag}.n{j}", it)
                        emit(tag, j, "from_buffer", [c for c, h in held.items() if h is it])
                except Exception as e:  # noqa
                    emit(tag, "EXC", type(e).__name__, e.args)
                emit(tag, "buffer_keys", list(buf))
                for c, h in buf.items():
                    dump_item(f"{tag}.b{c}", h)
                    emit(tag, c, "same_obj", held.get(c) is h)
                emit(tag, "input_unchanged", bytes(data) == before, type(data).__name__)
                n += 1
    # one buffer shared by consecutive calls: long notes that span packages and measures
    buf = {}
    for measure in range(12):
        for column in range(7):
            # types follow the buffer state so that heads and tails alternate per column
            open_ = column in buf
            fixed = []
            for _ in range(random.choice(SLOTS)):
                if random.random() < 0.5:
                    fixed.append(NOTE_OFF)
                    continue
                kind = 3 if open_ else random.choice([0, 2])
                open_ = kind == 2
                fixed.append(note_ev(kind))
            tag = f"S{measure}.{column}"
            notes = O2JEventPackage.read_events_note(b"".join(fixed), column, buf, measure)
            for j, it in enumerate(notes):
                dump_item(f"{tag}.n{j}", it)
            emit(tag, "buffer_keys", list(buf))
    emit("CONST", O2JConst.HIT_BYTES, O2JConst.HOLD_HEAD_BYTES, O2JConst.HOLD_TAIL_BYTES)


def main():
    direct_calls()
    shapes = [
        [(0, 0.0, 0)] * 3,
        [(1, 1.0, 0), (1, 0.5, 1), (0, 0.0, 2)],
        [(4, 0.6, 2), (6, 0.4, 3), (8, 0.9, 5)],
        [(12, 0.3, 0), (3, 1.0, 8), (5, 0.2, 1)],
        [(2, 0.8, 4, False), (2, 0.8, 4, True), (7, 0.5, 6)],
    ]
    k = 0
    for shape in shapes:
        for mode in ("small", "any"):
            for _ in range(3):
                raw = make_file(mode, shape)
                before = bytes(raw)
                try:
                    ms = O2JMapSet.read(raw)
                    dump_mapset(f"F{k}", ms)
                except Exception as e:  # noqa
                    emit(f"F{k}", "EXC", type(e).__name__)
                emit(f"F{k}", "input_unchanged", raw == before)
                k += 1
    for name in ("o2ma120.ojn", "o2ma178.ojn"):
        p = os.path.join(os.path.dirname(os.path.abspath(__file__)), "rsc", "maps", "o2jam", name)
        if not os.path.exists(p):
            p = os.path.join("rsc", "maps", "o2jam", name)
        ms = O2JMapSet.read_file(p)
        dump_mapset(name, ms)
    text = "\n".join(OUT)
    print(f"lines {len(OUT)}")
    print("DIGEST", hashlib.sha256(text.encode("utf-8", "backslashreplace")).hexdigest())


if __name__ == "__main__":
    main()
