import hashlib
import logging
import random
import sys
from copy import deepcopy
from fractions import Fraction

import numpy as np
import pandas as pd

logging.disable(logging.CRITICAL)

from reamber.algorithms.timing.TimingMap import TimingMap
from reamber.algorithms.timing.utils.BpmChangeSnap import BpmChangeSnap
from reamber.algorithms.timing.utils.BpmChangeOffset import BpmChangeOffset
from reamber.algorithms.timing.utils.Snapper import Snapper
from reamber.algorithms.timing.utils.from_bpm_changes_snap import from_bpm_changes_snap
from reamber.algorithms.timing.utils.snap import Snap
from reamber.sm.SMMap import SMMap
from reamber.sm.SMMapSet import SMMapSet
from reamber.sm.lists.SMStopList import SMStopList

OUT = []


def emit(*parts):
    OUT.append(" | ".join(str(p) for p in parts))


def fnum(x):
    """Canonical text of a scalar, keeping its python/numpy type visible."""
    if isinstance(x, (float, np.floating)):
        return f"{type(x).__name__}:{float(x).hex()}"
    return f"{type(x).__name__}:{x!r}"


def dump_df(tag, df):
    emit(tag, "columns", list(df.columns), "dtypes", [str(t) for t in df.dtypes])
    emit(tag, "index", type(df.index).__name__, str(df.index.dtype), list(df.index))
    for col in df.columns:
        emit(tag, "col", col, [fnum(v) for v in df[col].tolist()])


def dump_arr(tag, a):
    emit(tag, type(a).__name__, str(a.dtype), a.shape, a.flags["C_CONTIGUOUS"],
         [fnum(v) if not isinstance(v, Snap) else dump_snap(v) for v in a.tolist()])


def dump_snap(s):
    return f"Snap({fnum(s.measure)},{fnum(s.beat)},{fnum(s.metronome)})"


def dump_bcs(b):
    return f"BCS({fnum(b.bpm)},{fnum(b.metronome)},{dump_snap(b.snap)})"


def dump_bco(b):
    return f"BCO({fnum(b.bpm)},{fnum(b.metronome)},{fnum(b.offset)})"


LISTS = ("hits", "holds", "rolls", "mines", "lifts", "fakes", "keysounds", "bpms", "stops")
SET_FIELDS = (
    "title subtitle artist title_translit subtitle_translit artist_translit genre "
    "credit banner background lyrics_path cd_title music offset sample_start "
    "sample_length display_bpm selectable bg_changes fg_changes"
).split()


def dump_map(tag, m):
    emit(tag, "type", type(m).__name__)
    emit(tag, "header", repr(m.chart_type), repr(m.description), repr(m.difficulty),
         fnum(m.difficulty_val), [fnum(v) for v in m.groove_radar])
    emit(tag, "objs-keys", list(m.objs.keys()))
    for name in LISTS:
        tl = getattr(m, name)
        emit(tag, name, type(tl).__name__, len(tl))
        dump_df(f"{tag}.{name}", tl.df)


def dump_mapset(tag, ms):
    emit(tag, "type", type(ms).__name__, "nmaps", len(ms.maps))
    for f in SET_FIELDS:
        emit(tag, f, fnum(getattr(ms, f)))
    for i, m in enumerate(ms.maps):
        dump_map(f"{tag}.map{i}", m)


def attempt(tag, fn):
    try:
        return True, fn()
    except Exception as e:  # noqa
        emit(tag, "EXC", type(e).__name__)
        return False, None


# ---------------------------------------------------------------- generator

CHARTS = {
    "dance-single": 4,
    "dance-double": 8,
    "dance-solo": 6,
    "dance-threepanel": 3,
    "kb7-single": 7,
    "dance-couple": 4,
    "dance-routine": 8,
    "pump-single": 5,
    "pnm-nine": 9,
}
ROWS = [4, 8, 12, 16, 20, 24, 28, 32, 48, 64, 96, 192]
DIFFS = ["Beginner", "Easy", "Medium", "Hard", "Challenge", "Edit"]


def gen_bpms(rnd, n_measures, style):
    """(beat, bpm) pairs; beats are on the 1/48 grid, the first is at 0."""
    total_beats = max(4 * n_measures, 4)
    n = {"one": 1, "few": rnd.randint(2, 4), "many": rnd.randint(5, 12)}[style]
    beats = {Fraction(0)}
    while len(beats) < n:
        kind = rnd.random()
        if kind < 0.35:
            b = Fraction(4 * rnd.randrange(0, total_beats // 4 + 1))  # on a measure
        elif kind < 0.6:
            b = Fraction(rnd.randrange(0, total_beats + 1))  # on a beat
        else:
            b = Fraction(rnd.randrange(0, total_beats * 48 + 1), 48)  # 1/48 grid
        beats.add(b)
    pairs = []
    for b in sorted(beats):
        bpm = rnd.choice([60.0, 90.0, 120.0, 128.0, 150.0, 174.0, 180.0, 200.0, 222.22,
                          round(rnd.uniform(40, 400), 3), 1000.0, 0.5 * rnd.randint(100, 600)])
        pairs.append((b, bpm))
    return pairs


def fmt_beat(rnd, b):
    f = float(b)
    style = rnd.random()
    if style < 0.5:
        return f"{f:.6f}"
    if style < 0.8:
        return repr(f)
    return f"{f:.3f}" if Fraction(f"{f:.3f}") == b else f"{f:.6f}"


def gen_chart(rnd, keys, n_measures, messy, broken=None):
    """Rows of one chart. Holds/rolls are properly paired unless `broken`."""
    open_head = [None] * keys  # None or "2"/"4"
    measures = []
    for mi in range(n_measures):
        n_rows = rnd.choice(ROWS if rnd.random() < 0.7 else [4, 8, 16])
        density = rnd.choice([0.0, 0.05, 0.2, 0.5, 0.9])
        rows = []
        for _ in range(n_rows):
            row = []
            for c in range(keys):
                if rnd.random() >= density:
                    row.append("0")
                    continue
                if open_head[c] is not None:
                    if rnd.random() < 0.6:
                        row.append("3")
                        open_head[c] = None
                    else:
                        row.append("0")
                    continue
                sym = rnd.choice("1111222444MMLFK")
                if sym in "24":
                    open_head[c] = sym
                row.append(sym)
            rows.append("".join(row))
        measures.append(rows)
    # close whatever is still open in one more measure
    if any(h is not None for h in open_head):
        closing = ["".join("3" if h is not None else "0" for h in open_head)]
        closing += ["0" * keys] * 3
        measures.append(closing)
    if broken == "tail" and measures:
        r = list(measures[0][0])
        r[rnd.randrange(keys)] = "3"
        measures[0][0] = "".join(r)
    if broken == "head":
        extra = ["0" * keys] * 4
        r = list(extra[1])
        r[rnd.randrange(keys)] = rnd.choice("24")
        extra[1] = "".join(r)
        measures.append(extra)
    out = []
    for mi, rows in enumerate(measures):
        lines = []
        if messy and rnd.random() < 0.5:
            lines.append(f"  // measure {mi}")
        for row in rows:
            lines.append((rnd.choice(["", " ", "  ", "\t"]) if messy else "") + row
                         + (rnd.choice(["", " ", "  // c,o:m;ment"]) if messy else ""))
            if messy and rnd.random() < 0.15:
                lines.append("")
        out.append("\n".join(lines))
    sep = "\n,\n" if not messy or rnd.random() < 0.5 else ",\n"
    return sep.join(out)


WRITABLE = {k: v for k, v in CHARTS.items() if k not in ("pump-single", "pnm-nine")}


def gen_sm(rnd, idx, broken=None, writable=False):
    messy = rnd.random() < 0.5
    n_charts = rnd.choice([0, 1, 1, 2, 3, 5]) if broken is None else 1
    if writable:
        n_charts = max(n_charts, 1)
    n_measures = rnd.choice([0, 1, 2, 3, 5, 8])
    bpms = gen_bpms(rnd, n_measures, rnd.choice(["one", "few", "few", "many"]))
    if rnd.random() < 0.3:
        rnd.shuffle(bpms)  # unsorted #BPMS rows
    off_style = rnd.random()
    lines = []
    if messy:
        lines.append("// generated file ; with : odd , comment")
    lines.append(f"#TITLE:song {idx};")
    lines.append("#SUBTITLE:;")
    lines.append(f"#ARTIST:artist {rnd.randint(0, 99)};")
    if rnd.random() < 0.5:
        lines.append("#TITLETRANSLIT:t;\n#SUBTITLETRANSLIT:s;\n#ARTISTTRANSLIT:a;")
    lines.append("#GENRE:g;\n#CREDIT:c;\n#BANNER:bn.png;\n#BACKGROUND:bg.png;")
    lines.append("#LYRICSPATH:;\n#CDTITLE:cd.png;\n#MUSIC:m.ogg;")
    if off_style < 0.8:
        off = rnd.choice([0.0, -0.0, 0.009, -0.375, 1.25, -2.5, round(rnd.uniform(-3, 3), 3)])
        lines.append(f"#OFFSET:{off};")
    lines.append(f"#SAMPLESTART:{round(rnd.uniform(0, 90), 3)};")
    lines.append(f"#SAMPLELENGTH:{round(rnd.uniform(5, 20), 3)};")
    lines.append("#SELECTABLE:" + rnd.choice(["YES", "NO"]) + ";")
    sep = ",\n" if rnd.random() < 0.5 else ","
    lines.append("#BPMS:" + sep.join(f"{fmt_beat(rnd, b)}={bpm}" for b, bpm in bpms) + ";")
    if off_style < 0.8 and rnd.random() < 0.5:
        lines.append("#STOPS:;")  # the empty tag real files carry; no stop in it
    lines.append("#DISPLAYBPM:*;\n#BGCHANGES:;\n#FGCHANGES:;")
    for ci in range(n_charts):
        chart, keys = rnd.choice(list((WRITABLE if writable else CHARTS).items()))
        body = gen_chart(rnd, keys, n_measures, messy, broken)
        if messy:
            lines.append(f"//--------------- {chart} - ----------------")
        radar = ",".join(str(round(rnd.random(), 3)) for _ in range(5))
        lines.append(
            f"#NOTES:\n     {chart}:\n     desc {ci}:\n     {rnd.choice(DIFFS)}:\n"
            f"     {rnd.randint(1, 30)}:\n     {radar}:\n{body}\n;"
        )
    return "\n".join(lines) + "\n"


def run_sm_corpus(seed, n_files):
    rnd = random.Random(seed)
    for i in range(n_files):
        broken = None
        if i % 11 == 7:
            broken = "tail"
        elif i % 11 == 9:
            broken = "head"
        text = gen_sm(rnd, i, broken)
        emit("FILE", i, hashlib.sha256(text.encode()).hexdigest()[:16])
        as_list = i % 4 == 3
        arg = text.split("\n") if as_list else text
        arg_before = deepcopy(arg)
        ok, ms = attempt(f"file{i}", lambda: SMMapSet.read(arg))
        emit(f"file{i}", "input-unchanged", arg == arg_before)
        if ok:
            dump_mapset(f"file{i}", ms)


def finish():
    text = "\n".join(OUT)
    print("DIGEST", hashlib.sha256(text.encode()).hexdigest())
    if len(sys.argv) > 1 and sys.argv[1] == "--dump":
        sys.stderr.write(text + "\n")


# ------------------------------------------------------------ focus: change 1
def rand_bcs_list(rnd, n, metronome_mix):
    out = []
    pos = Fraction(0)
    for i in range(n):
        if i:
            step = rnd.choice([Fraction(0), Fraction(1, 48), Fraction(1, 3), Fraction(1, 2),
                               Fraction(1), Fraction(4), Fraction(7, 4), Fraction(16),
                               Fraction(rnd.randrange(1, 48 * 12), 48)])
            pos += step
        met = rnd.choice([3, 4, 5, 7]) if metronome_mix else 4
        bpm = rnd.choice([60.0, 120.0, 150.5, 200.0, 333.333, 90, 1000.0,
                          round(rnd.uniform(30, 500), 4)])
        if metronome_mix:
            # keep the snap legal for its own metronome
            out.append(BpmChangeSnap(bpm, met, Snap(int(pos // 4), 0, met)))
        else:
            out.append(BpmChangeSnap(bpm, 4, Snap(0, pos, 4)))
    return out


def focus1(seed):
    rnd = random.Random(seed)
    offsets0 = [0.0, 0, -375.0, 12.5, -0.0, 1e6, np.float64(-33.25), 250, 1 / 3]
    for i in range(90):
        n = rnd.choice([1, 1, 2, 3, 5, 9, 20])
        mix = i % 6 == 5
        bcs_s = rand_bcs_list(rnd, n, mix)
        if rnd.random() < 0.4:
            rnd.shuffle(bcs_s)
        init = rnd.choice(offsets0)
        for reseat in (False, True):
            tag = f"f1.{i}.{int(reseat)}"
            before = [dump_bcs(b) for b in bcs_s]
            ids = [id(b) for b in bcs_s]
            ok, tm = attempt(tag, lambda: from_bpm_changes_snap(init, bcs_s, reseat))
            emit(tag, "input-unchanged", before == [dump_bcs(b) for b in bcs_s],
                 ids == [id(b) for b in bcs_s])
            if ok:
                emit(tag, type(tm).__name__, type(tm.bpm_changes_offset).__name__,
                     [dump_bco(b) for b in tm.bpm_changes_offset])
                emit(tag, "snapper-default", tm.snapper is TimingMap.snapper)
                ok2, bcs2 = attempt(tag + ".snap", tm.bpm_changes_snap)
                if ok2:
                    emit(tag, "back", [dump_bcs(b) for b in bcs2])
        if i % 5 == 0:
            tag = f"f1.{i}.static"
            ok, tm = attempt(tag, lambda: TimingMap.from_bpm_changes_snap(init, bcs_s))
            if ok:
                emit(tag, [dump_bco(b) for b in tm.bpm_changes_offset])
                ok, tm2 = attempt(tag + ".reseat", tm.reseat)
                if ok:
                    emit(tag, "reseat", [dump_bco(b) for b in tm2.bpm_changes_offset])
    # edge cases
    attempt("f1.empty", lambda: from_bpm_changes_snap(0.0, []))
    attempt("f1.empty.noreseat", lambda: from_bpm_changes_snap(0.0, [], False))
    attempt("f1.late", lambda: from_bpm_changes_snap(0.0, [BpmChangeSnap(120, 4, Snap(1, 0, 4))]))
    attempt("f1.latebeat",
            lambda: from_bpm_changes_snap(0.0, [BpmChangeSnap(120, 4, Snap(0, 1, 4))], False))
    attempt("f1.none", lambda: from_bpm_changes_snap(0.0, None))
    attempt("f1.zero-bpm", lambda: from_bpm_changes_snap(
        0.0, [BpmChangeSnap(0.0, 4, Snap(0, 0, 4)), BpmChangeSnap(100.0, 4, Snap(1, 0, 4))]))
    tup = (BpmChangeSnap(100.0, 4, Snap(0, 0, 4)), BpmChangeSnap(50.0, 4, Snap(2, 0, 4)))
    attempt("f1.tuple", lambda: from_bpm_changes_snap(0.0, tup))
    ok, tm = attempt("f1.ties", lambda: from_bpm_changes_snap(
        10.0,
        [BpmChangeSnap(100.0, 4, Snap(0, 0, 4)), BpmChangeSnap(50.0, 4, Snap(2, 0, 4)),
         BpmChangeSnap(70.0, 4, Snap(2, 0, 4)), BpmChangeSnap(80.0, 4, Snap(0, 0, 4))]))
    if ok:
        emit("f1.ties", [dump_bco(b) for b in tm.bpm_changes_offset])


run_sm_corpus(20240101, 60)
focus1(11)
finish()
