"""Command line of the checks:  python3-vt -m sa.check <ID> --tier quick|thorough

Exit protocol (DESIGN §2.2): 0 pass (KNOWN-FINDING lines allowed), 1 VIOLATION,
2 ANALYSIS-ERROR (undecided / vanished anchor / below floor / blind rule).
"""
from __future__ import annotations

import argparse
import importlib
import json
import os
import sys
import time
import traceback

from .model import Model, AnalysisError
from . import report as R


class Ctx:
    """Shared, lazily built analyses for one run."""

    def __init__(self, root: str, overlay=None):
        from .controls import CONTROLS
        self.root = root
        ov = dict(CONTROLS)
        ov.update(overlay or {})
        self.M = Model(root, overlay=ov)
        self._W = None
        self._E = None
        self.cache = {}

    @property
    def W(self):
        if self._W is None:
            from .types import TypeWorld
            self._W = TypeWorld(self.M)
        return self._W

    @property
    def E(self):
        if self._E is None:
            from .effect import EffectAnalysis
            self._E = EffectAnalysis(self.M, self.W)
            self._E.solve()
        return self._E


def prop_module(pid: str):
    return importlib.import_module(f"sa.props.{pid.lower()}")


def run_property(pid: str, tier: str, root: str, seed: int, quiet=False, write=True, ctx=None):
    t0 = time.time()
    mod = prop_module(pid)
    ctx = ctx or Ctx(root)
    known = R.load_known()
    out = R.evaluate(pid, tier, mod.SPECS, ctx, known)
    if ctx.M.reflection_unknown:
        # the model does not follow reflective access it has not been told about: no PASS may be reported, but a violation
        # that the rules decide anyway is still a violation (it takes precedence in the exit code)
        out.errors.append("new reflective access in scope (not modelled): " + "; ".join(ctx.M.reflection_unknown))
    if tier == "thorough" and hasattr(mod, "thorough"):
        try:
            mod.thorough(ctx, out, seed)
        except AnalysisError as e:
            out.errors.append(f"thorough: {e}")
    if tier == "thorough":
        from . import selftest
        st = selftest.run_for_property(pid, seed, root)
        out.selftest = st
        for f in st.get("failures", []):
            out.errors.append(f"selftest: {f}")
    out.wall_s = time.time() - t0
    meta = dict(mod.META)
    meta.setdefault("titles", {s.rid: s.title for s in mod.SPECS})
    meta.setdefault("checker_cmd", f"python3-vt -m sa.check {pid} --tier {tier}")
    meta.setdefault("trusted_base", [
        "CPython ast.parse", "sa/models/pandas_model.py (pandas/numpy call semantics table)",
        "sa/model.py static expansion of reamber/base/Property.py decorators"])
    meta.setdefault("assumptions", R.COMMON_ASSUMPTIONS)
    if write:
        R.write_evidence(out, meta, seed, dict(ctx.M.census(), root=str(root),
                                               reflection_sites=len(ctx.M.reflection_sites)))
    if not quiet:
        emit(out, write)
    return out


def emit(out: R.Outcome, write=True):
    pid = out.prop
    print(f"== {pid} tier={out.tier} ==")
    for rid, c in out.rule_counts.items():
        print(f"  {rid:10s} instances={c['instances']:3d} ok={c['ok']:3d} known={c['known']} "
              f"violation={c['violation']} undecided={c['undecided']} advisory={c['advisory']} (floor {c['floor']})")
    for i in out.insts:
        if i.status == R.ADV:
            print(f"  advisory {i.rule} {i.where()} [{i.key}] {i.msg}")
    for i in out.known_hits:
        print(f"KNOWN-FINDING: property={pid} {i.rule} {i.where()} [{i.key}] {i.msg}")
    for e in out.errors:
        print(f"ANALYSIS-ERROR property={pid} {e}")
    for i in out.violations:
        p = R.write_replay(pid, i) if write else R.replay_path(pid, i)
        print(f"  {i.where()}: {i.rule} [{i.key}] {i.msg}")
        if i.construct:
            print(f"      construct: {i.construct[:200]}")
        print(f"      fid: {i.fid()}")
        print(f"VIOLATION property={pid} replay={p}")
    if out.selftest is not None:
        st = out.selftest
        print(f"  selftest: variants={st.get('variants', 0)} caught={st.get('caught', 0)} "
              f"twins_silent={st.get('twins_silent', 0)} skipped={st.get('skipped', 0)} failures={len(st.get('failures', []))}")
        sx = st.get("stored_twins") or {}
        if sx.get("total"):
            print(f"  stored refactorings (twins/): total={sx['total']} silent={sx['silent']} skipped={sx['skipped']} "
                  f"expected-undecided={len(sx.get('expected_undecided', []))}")
    print(f"  result: exit {out.exit_code} ({'PASS' if out.exit_code == 0 else 'VIOLATION' if out.exit_code == 1 else 'ANALYSIS-ERROR'})"
          f" in {out.wall_s:.2f}s")


def replay(path: str, root: str) -> int:
    rec = json.loads(open(path).read())
    pid = rec["property"]
    out = run_property(pid, "quick", root, 0, quiet=True, write=False)
    hits = [i for i in out.insts if i.fid() == rec["fid"] and i.status == R.VIOL]
    if hits:
        i = hits[0]
        print(f"{i.where()}: {i.rule} [{i.key}] {i.msg}")
        print(f"VIOLATION property={pid} replay={path}")
        return 1
    print(f"replay: instance {rec['fid']} no longer violates on the current tree")
    return 0


def main(argv=None) -> int:
    ap = argparse.ArgumentParser()
    ap.add_argument("prop", nargs="?")
    ap.add_argument("--tier", default=os.environ.get("VERIF_TIER", "quick"), choices=["quick", "thorough"])
    ap.add_argument("--root", default=os.environ.get("VERIF_REPO", "/repo"))
    ap.add_argument("--replay")
    ap.add_argument("--no-write", action="store_true")
    a = ap.parse_args(argv)
    seed = int(os.environ.get("VERIF_SEED", "0") or 0)
    pid = a.prop or "?"
    try:
        if a.replay:
            return replay(a.replay, a.root)
        if not a.prop:
            ap.error("property id required")
        out = run_property(a.prop.upper(), a.tier, a.root, seed, write=not a.no_write)
        return out.exit_code
    except AnalysisError as e:
        print(f"ANALYSIS-ERROR property={pid} {e}")
        return 2
    except Exception as e:  # never let a traceback look like a violation
        traceback.print_exc()
        print(f"ANALYSIS-ERROR property={pid} internal error {type(e).__name__}: {e}")
        return 2


if __name__ == "__main__":
    sys.exit(main())
