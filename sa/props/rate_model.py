"""Effective scalings of `rate(by)` for a concrete class (C13).

The rate change of a class is spread over a method, its `super().rate` chain and
possibly hook methods it calls on the copy; which body runs is decided by the MRO
of the *concrete* class.  This module interprets that chain abstractly and
returns what gets multiplied / divided by the unmodified rate parameter:

  list_ops   [(guard, column, op, node, where)]   guard None = every list declaring the column,
                                                   otherwise the list base classes of an isinstance test / stack filter
  field_ops  {field path: (op, node, where)}      file-level fields of the object itself (preview_time, samples.offset, ...)
  per_chart  True when every chart of a mapset is rated with the same parameter
  undecided  shapes the interpreter has no transfer function for
"""
from __future__ import annotations

import ast
import copy
from dataclasses import dataclass, field
from typing import Dict, List, Optional, Set, Tuple

from ..model import AnalysisError, walk_no_nested, params_of
from .. import cmp as P
from .common import unparse, call_name, attr_chain, short


@dataclass
class Scalings:
    list_ops: List[tuple] = field(default_factory=list)
    field_ops: Dict[str, tuple] = field(default_factory=dict)
    per_chart: Optional[bool] = None
    per_chart_why: str = ""
    per_chart_unknown: str = ""
    undecided: List[str] = field(default_factory=list)
    methods: List[str] = field(default_factory=list)
    rebinds_by: List[tuple] = field(default_factory=list)
    nodes: Dict[str, ast.AST] = field(default_factory=dict)        # short(function) -> the tree the model interpreted


def effective(ctx, cls: str) -> Scalings:
    key = ("rate-model", cls)
    if key in ctx.cache:
        return ctx.cache[key]
    M = ctx.M
    out = Scalings()
    m = M.method(cls, "rate")
    if m is None:
        raise AnalysisError(f"{cls} has no rate()")
    _interp(ctx, cls, m, out, depth=0)
    ctx.cache[key] = out
    return out


def _guard_classes(M, mod: str, e: ast.AST) -> Optional[List[str]]:
    elts = e.elts if isinstance(e, (ast.Tuple, ast.List)) else [e]
    res = []
    for x in elts:
        r = M.resolve_expr(mod, x)
        if not r or r[0] != "class":
            return None
        res.append(r[1])
    return res


def _interp(ctx, cls: str, q: str, out: Scalings, depth: int, self_is_subject: bool = False):
    M = ctx.M
    if depth > 6 or q in out.methods:
        return
    out.methods.append(q)
    fn = M.nfn(q)
    # locals that merely name an attribute of another local (`samples = rated.samples`, `t = rated.preview_time`) stand for it; the
    # names bound to calls (the copy, the stack, the rated charts) are what the model follows and keep theirs
    attr_locals = {n.targets[0].id for n in ast.walk(fn.node) if isinstance(n, ast.Assign) and len(n.targets) == 1 and isinstance(n.targets[0], ast.Name)
                   and isinstance(n.value, ast.Attribute) and isinstance(n.value.value, ast.Name)}
    all_locals = {n.targets[0].id for n in ast.walk(fn.node) if isinstance(n, ast.Assign) and len(n.targets) == 1 and isinstance(n.targets[0], ast.Name)}
    if attr_locals:
        try:
            fn = M.nfn(q, subst=True, keep=tuple(sorted(all_locals - attr_locals)))
        except Exception:
            fn = M.nfn(q)
    out.nodes[short(q)] = fn.node
    ps = [p for p in params_of(fn.node) if p not in ("self", "cls")]
    if len(ps) != 1:
        out.undecided.append(f"{short(q)}: expected exactly one rate parameter")
        return
    by = ps[0]
    for n in P.rebinds(fn.node, by):
        out.rebinds_by.append((n, short(q)))
    subject: Set[str] = {"self"} if self_is_subject else set()
    stackvars: Dict[str, Optional[List[str]]] = {}
    frame_alias: Dict[str, str] = {}        # local bound to <stack>._stacked -> the stack variable
    frame_ops: List[Tuple[str, ast.AST]] = []
    where = short(q)

    def is_subject(e) -> bool:
        return isinstance(e, ast.Name) and e.id in subject

    def handle_scaling(st, guard_stack: List[List[str]], loopvars: Dict[str, Optional[List[str]]]):
        sc = P.scaling(st, by)
        tgt = st.target if isinstance(st, ast.AugAssign) else (st.targets[0] if isinstance(st, ast.Assign) else None)
        if tgt is None:
            return False
        ch = attr_chain(tgt)
        # a local that names an attribute of a subject (`samples = rated.samples`, bound once): the store goes to that attribute
        if ch and len(ch) >= 2 and ch[0] not in subject and ch[0] not in stackvars and ch[0] not in loopvars:
            ds_ = [n.value for n in ast.walk(fn.node) if isinstance(n, ast.Assign) and len(n.targets) == 1 and isinstance(n.targets[0], ast.Name) and
                   n.targets[0].id == ch[0]]
            if len(ds_) == 1 and attr_chain(ds_[0]) and attr_chain(ds_[0])[0] in subject:
                ch = attr_chain(ds_[0]) + ch[1:]
        if ch is None and isinstance(tgt, ast.Subscript) and isinstance(tgt.value, ast.Name) and tgt.value.id in stackvars and \
                isinstance(tgt.slice, ast.Constant):
            ch = [tgt.value.id, tgt.slice.value]
        if ch is None and isinstance(tgt, ast.Subscript) and isinstance(tgt.value, ast.Name) and tgt.value.id in frame_alias and \
                isinstance(tgt.slice, ast.Constant):
            # a column of the stacked frame itself (frame = stack._stacked): the same column as the stack property, provided the
            # frame is written back afterwards (checked at the end of the function)
            ch = [frame_alias[tgt.value.id], tgt.slice.value]
            frame_ops.append((frame_alias[tgt.value.id], st))
        if not ch or len(ch) < 2:
            return False
        base = ch[0]
        if base in stackvars:
            op = sc[1] if sc else "other"
            out.list_ops.append((stackvars[base], ch[1], op, st, where))
            return True
        if base in loopvars:
            op = sc[1] if sc else "other"
            g = loopvars[base]
            if guard_stack:
                g = guard_stack[-1] if g is None else [c for c in g if c in guard_stack[-1]] or guard_stack[-1]
            out.list_ops.append((g, ch[1], op, st, where))
            return True
        if base in subject:
            if sc:
                out.field_ops[".".join(ch[1:])] = (sc[1], st, where)
            elif isinstance(st, ast.AugAssign):
                out.field_ops[".".join(ch[1:])] = ("other", st, where)
            else:
                return False
            return True
        return False

    def replace_call(st):
        """`replace(S, f=<S.f scaled>, ..)` (dataclasses.replace) on a subject S, returned or bound: every keyword is the store
        `S.f = <value>` on the copy it makes — a None-guard around the value (`None if S.f is None else S.f / by`) is looked through"""
        v = st.value if isinstance(st, (ast.Return, ast.Assign)) else None
        if not (isinstance(v, ast.Call) and call_name(v) == "replace" and len(v.args) == 1 and is_subject(v.args[0]) and v.keywords and
                all(k.arg for k in v.keywords)):
            return False
        r_ = M.resolve(fn.mod, "replace") if isinstance(v.func, ast.Name) else None
        if isinstance(v.func, ast.Name) and not (r_ and r_[0] == "external" and r_[1].startswith("dataclasses")):
            return False
        if isinstance(v.func, ast.Attribute) and unparse(v.func.value) != "dataclasses":
            return False
        subj = v.args[0].id
        for k in v.keywords:
            e = k.value
            if isinstance(e, ast.IfExp):
                none_a, none_b = isinstance(e.body, ast.Constant) and e.body.value is None, isinstance(e.orelse, ast.Constant) and e.orelse.value is None
                if none_a != none_b and f"{subj}.{k.arg}" in unparse(e.test) and "None" in unparse(e.test):
                    e = e.orelse if none_a else e.body
                    if not hasattr(out, "guarded"):
                        out.guarded = set()
                    out.guarded.add(k.arg)          # scaled only when it is not the sentinel
            st2 = ast.copy_location(ast.Assign(targets=[ast.Attribute(value=ast.Name(id=subj, ctx=ast.Load()), attr=k.arg, ctx=ast.Store())], value=e), st)
            ast.fix_missing_locations(st2)
            if not handle_scaling(st2, [], {}):
                out.field_ops[k.arg] = ("other", st, where)
        if isinstance(st, ast.Assign) and isinstance(st.targets[0], ast.Name):
            subject.add(st.targets[0].id)
        return True

    df_alias: Dict[str, ast.AST] = {}       # local bound to <list>.df -> the list expression

    class _Columns(ast.NodeTransformer):
        """L.df["col"] (also through `f = L.df`) is the column property L.col of a list: both read and store the same frame column"""
        def visit_Subscript(self, n):
            n = self.generic_visit(n)
            if isinstance(n.slice, ast.Constant) and isinstance(n.slice.value, str) and n.slice.value.isidentifier():
                base = None
                if isinstance(n.value, ast.Name) and n.value.id in df_alias:
                    base = copy.deepcopy(df_alias[n.value.id])
                elif isinstance(n.value, ast.Attribute) and n.value.attr == "df" and attr_chain(n.value.value):
                    base = n.value.value
                if base is not None:
                    return ast.copy_location(ast.Attribute(value=base, attr=n.slice.value, ctx=n.ctx), n)
            return n

    def run(stmts, guard_stack, loopvars):
        for st in stmts:
            if isinstance(st, ast.Expr) and isinstance(st.value, ast.Constant):
                continue
            if isinstance(st, ast.Assign) and len(st.targets) == 1 and isinstance(st.targets[0], ast.Name) and isinstance(st.value, ast.Attribute) and \
                    st.value.attr == "df" and attr_chain(st.value.value) and attr_chain(st.value.value)[0] in subject and \
                    sum(1 for x in ast.walk(fn.node) if isinstance(x, ast.Name) and x.id == st.targets[0].id and isinstance(x.ctx, ast.Store)) == 1:
                df_alias[st.targets[0].id] = st.value.value
                continue
            if isinstance(st, (ast.Assign, ast.AugAssign)) and any(isinstance(x, ast.Subscript) for x in ast.walk(st)):
                st = ast.fix_missing_locations(_Columns().visit(copy.deepcopy(st)))
            if isinstance(st, (ast.Return, ast.Assign)) and replace_call(st):
                continue
            if isinstance(st, (ast.Assign, ast.AugAssign)):
                if handle_scaling(st, guard_stack, loopvars):
                    continue
            if isinstance(st, ast.Assign) and isinstance(st.targets[0], ast.Name):
                nm, v = st.targets[0].id, st.value
                # copy = self.deepcopy() / deepcopy(self)
                if isinstance(v, ast.Call) and ((call_name(v) == "deepcopy" and (
                        (isinstance(v.func, ast.Attribute) and unparse(v.func.value) in ("self",) + tuple(subject)) or
                        (v.args and unparse(v.args[0]) in ("self",) + tuple(subject))))):
                    subject.add(nm)
                    continue
                # x = super(...).rate(by)
                if isinstance(v, ast.Call) and call_name(v) == "rate" and isinstance(v.func, ast.Attribute) and \
                        isinstance(v.func.value, ast.Call) and unparse(v.func.value.func) == "super":
                    args = list(v.args) + [k.value for k in v.keywords]
                    if not (len(args) == 1 and isinstance(args[0], ast.Name) and args[0].id == by):
                        out.undecided.append(f"{where}: base rate called with '{unparse(v)}' (not the unmodified rate)")
                        out.list_ops.append((None, "*", "other", st, where))
                    nxt = M.method_after(cls, fn.cls, "rate")
                    if nxt is None:
                        out.undecided.append(f"{where}: super().rate does not resolve")
                    else:
                        _interp(ctx, cls, nxt, out, depth + 1)
                    subject.add(nm)
                    continue
                # frame = <stack>._stacked
                if isinstance(v, ast.Attribute) and v.attr == "_stacked" and isinstance(v.value, ast.Name) and v.value.id in stackvars:
                    frame_alias[nm] = v.value.id
                    continue
                # stack = S.stack(...)
                if isinstance(v, ast.Call) and call_name(v) == "stack" and isinstance(v.func, ast.Attribute) and is_subject(v.func.value):
                    if v.args or v.keywords:
                        a = v.args[0] if v.args else v.keywords[0].value
                        stackvars[nm] = _guard_classes(M, fn.mod, a)
                    else:
                        stackvars[nm] = None
                    continue
            # S.maps = [m.rate(by) for m in S.maps]
            if isinstance(st, ast.Assign) and isinstance(st.targets[0], ast.Attribute) and st.targets[0].attr == "maps" and \
                    is_subject(st.targets[0].value) and isinstance(st.value, ast.ListComp):
                lc = st.value
                g = lc.generators[0]
                e = lc.elt
                good = isinstance(e, ast.Call) and call_name(e) == "rate" and isinstance(e.func.value, ast.Name) and \
                    isinstance(g.target, ast.Name) and e.func.value.id == g.target.id
                args = (list(e.args) + [k.value for k in e.keywords]) if isinstance(e, ast.Call) else []
                same = len(args) == 1 and isinstance(args[0], ast.Name) and args[0].id == by
                it = unparse(g.iter)
                src_ok = it.endswith(".maps") and it.split(".")[0] in subject | {"self"} or it in subject
                if good and same and src_ok and not g.ifs:
                    out.per_chart, out.per_chart_why = True, f"[m.rate({by}) for m in {it}]"
                else:
                    out.per_chart = False
                    out.per_chart_why = ("some charts are filtered out of the rate change" if g.ifs else
                                         "charts are rated by something other than the rate parameter" if good and not same else
                                         f"charts are taken from '{it}'" if good else "charts are not rated one by one")
                continue
            # S.hook(by)
            if isinstance(st, ast.Expr) and isinstance(st.value, ast.Call) and isinstance(st.value.func, ast.Attribute) and \
                    is_subject(st.value.func.value):
                c = st.value
                args = list(c.args) + [k.value for k in c.keywords]
                if any(isinstance(a, ast.Name) and a.id == by for a in args):
                    hook = M.method(cls, c.func.attr)
                    if hook is None:
                        out.undecided.append(f"{where}: {c.func.attr}() does not resolve on {short(cls)}")
                    else:
                        _interp_hook(ctx, cls, hook, out, depth + 1)
                    continue
            if isinstance(st, ast.If):
                # isinstance(tl, X) guards on a list loop variable
                g = None
                t = st.test
                if isinstance(t, ast.Call) and isinstance(t.func, ast.Name) and t.func.id == "isinstance" and len(t.args) == 2 and \
                        isinstance(t.args[0], ast.Name) and t.args[0].id in loopvars:
                    g = _guard_classes(M, fn.mod, t.args[1])
                run(st.body, guard_stack + ([g] if g else []), loopvars)
                run(st.orelse, guard_stack, loopvars)
                continue
            if isinstance(st, ast.For) and isinstance(st.target, ast.Name):
                it = st.iter
                lv = dict(loopvars)
                txt = unparse(it)
                if (txt.endswith(".objs.values()") and txt.split(".")[0] in subject) or \
                        (isinstance(it, (ast.Tuple, ast.List)) and all(isinstance(x, ast.Attribute) and is_subject(x.value) for x in it.elts)):
                    if isinstance(it, (ast.Tuple, ast.List)):
                        slots = M.map_slots(cls) if M.class_kind(cls) == "chart" else {}
                        lv[st.target.id] = [slots[x.attr] for x in it.elts if x.attr in slots] or None
                    else:
                        lv[st.target.id] = None
                    run(st.body, guard_stack, lv)
                    continue
                run(st.body, guard_stack, lv)
                continue
            if isinstance(st, ast.Return):
                continue
            if isinstance(st, (ast.With, ast.Try)):
                run(getattr(st, "body", []), guard_stack, loopvars)
                continue
            # charts rated one by one in a statement of another shape: whether every chart of the result is one of them is not modelled
            if any(isinstance(x, ast.Call) and call_name(x) == "rate" and isinstance(x.func, ast.Attribute) and isinstance(x.func.value, ast.Name) and
                   x.func.value.id not in subject | {"self"} and not (isinstance(x.func.value, ast.Call)) for x in ast.walk(st)) and \
                    M.class_kind(cls) == "mapset":
                out.per_chart_unknown = f"{where}: {unparse(st)[:80]}"
                continue
            # anything else that mentions the rate parameter is not modelled
            if any(isinstance(x, ast.Name) and x.id == by for x in ast.walk(st)):
                out.undecided.append(f"{where}: statement using the rate is not modelled: {unparse(st)[:80]}")

    def _interp_hook(ctx, cls, hook, out, depth):
        _interp(ctx, cls, hook, out, depth, self_is_subject=True)

    # `osu = super(OsuMap, self.deepcopy()).rate(by)`: the receiver of super is already a copy
    run(fn.node.body, [], {})
    # columns scaled on the stacked frame itself reach the lists only through the write-back: <stack>._update() after the last one
    for sv in sorted({a for a, _ in frame_ops}):
        last = max(st.lineno for a, st in frame_ops if a == sv)
        upd = [n for n in walk_no_nested(fn.node) if isinstance(n, ast.Call) and call_name(n) == "_update" and
               isinstance(n.func, ast.Attribute) and isinstance(n.func.value, ast.Name) and n.func.value.id == sv and n.lineno > last]
        if not upd:
            out.undecided.append(f"{where}: columns of '{sv}._stacked' are scaled but '{sv}._update()' does not follow: the lists keep their values")
