"""Demo for C05 refactoring 2 (TimingMap.snaps / TimingMap.offsets share one
descending-walk generator).

Calls TimingMap.snaps / offsets / beats directly on many generated tempo timelines and
query arrays (empty, unsorted, ties, ints, exactly on tempo points, before the first
tempo point ...), dumps results with dtypes / element types, the inputs afterwards and
the (in-place sorted) tempo list, and then writes + reads BMS charts in every layout.
Prints one line: DIGEST <sha256>.
"""
import hashlib
import random
import warnings
from fractions import Fraction

import numpy as np

from reamber.algorithms.timing.TimingMap import TimingMap
from reamber.algorithms.timing.utils.BpmChangeOffset import BpmChangeOffset
from reamber.algorithms.timing.utils.BpmChangeSnap import BpmChangeSnap
from reamber.algorithms.timing.utils.Snapper import Snapper
from reamber.algorithms.timing.utils.snap import Snap
from reamber.bms.BMSMap import BMSMap
from reamber.bms.BMSChannel import BMSChannel
from reamber.bms.BMSHit import BMSHit
from reamber.bms.BMSHold import BMSHold
from reamber.bms.BMSBpm import BMSBpm
from reamber.bms.lists.BMSBpmList import BMSBpmList
from reamber.bms.lists.notes.BMSHitList import BMSHitList
from reamber.bms.lists.notes.BMSHoldList import BMSHoldList

import logging
logging.disable(logging.CRITICAL)
warnings.simplefilter("ignore")
random.seed(50502)
np.random.seed(50502)

OUT = []


def emit(*a):
    OUT.append(" ".join(str(x) for x in a))


def show(x):
    if isinstance(x, Snap):
        return (f"Snap({type(x.measure).__name__}:{x.measure!r},{type(x.beat).__name__}:{x.beat!r},"
                f"{type(x.metronome).__name__}:{x.metronome!r})")
    return f"{type(x).__name__}:{x!r}"


def show_arr(tag, r):
    emit("   ", tag, type(r).__name__, getattr(r, "dtype", None), getattr(r, "shape", None))
    for x in r:
        emit("      ", show(x))


def show_tm(tag, tm):
    emit("   ", tag, [(show(b.offset), show(b.bpm), show(b.metronome)) for b in tm.bpm_changes_offset])


SNAPPER = Snapper()
DENS = [1, 2, 3, 4, 5, 6, 7, 8, 9, 12, 16, 32, 64, 96]


def timeline(n, first=0.0, metronomes=(4,), shuffle=False):
    bcos, off = [], first
    for _ in range(n):
        bpm = random.choice([60, 90, 120, 150, 180, 200, 133.33, 75.5])
        met = random.choice(metronomes)
        bcos.append(BpmChangeOffset(bpm=bpm, metronome=met, offset=off))
        off += random.randint(1, 4) * met * 60000.0 / bpm
    if shuffle:
        random.shuffle(bcos)
    return bcos, off


def call(tag, fn, arg, tm):
    try:
        r = fn(arg)
        show_arr(tag, r)
    except Exception as e:  # noqa
        emit("   ", tag, "raised", type(e).__name__, e.args if isinstance(e, IndexError) else "")
    show_tm("tm after", tm)


def tm_case(tag, n_bpm, first=0.0, metronomes=(4,), shuffle=False, direct=False):
    bcos, end = timeline(n_bpm, first, metronomes, shuffle)
    # direct=True: hand the (maybe unsorted) list straight to the dataclass
    tm = TimingMap(bpm_changes_offset=bcos) if direct else TimingMap.from_bpm_changes_offset(bcos)
    emit("=== TM", tag, n_bpm, first, metronomes, shuffle, direct)
    show_tm("tm before", tm)
    srt = sorted(bcos, key=lambda b: b.offset)
    on_points = [b.offset for b in srt]
    grid = []
    for b in srt:
        for _ in range(4):
            den = random.choice(DENS)
            grid.append(b.offset + float(Fraction(random.randrange(0, int(b.metronome) * den), den)) * 60000.0 / b.bpm)
    rand = [random.uniform(first, end + 3000) for _ in range(random.randint(1, 15))]
    queries = {
        "empty_list": [],
        "empty_arr": np.array([]),
        "on_points": list(on_points),
        "on_points_rev": list(reversed(on_points)),
        "grid_shuffled": random.sample(grid, len(grid)),
        "off_grid": rand,
        "ties": [rand[0], rand[0], on_points[-1], on_points[-1], rand[0]],
        "tuple": tuple(rand[:3]),
        "nparray": np.array(sorted(rand, reverse=True)),
        "ints": [int(first) + 1000 * i for i in range(5)],
        "int_arr": np.arange(int(first), int(first) + 4000, 750),
        "single": [on_points[0]],
        "far_after": [end + 1e6],
        "before_first": [first - 10.0, first + 5.0],
        "only_before_first": [first - 0.001],
    }
    for qn, q in queries.items():
        before = repr(q)
        emit("  snaps", qn)
        call("snaps", lambda a: tm.snaps(a, SNAPPER), q, tm)
        emit("    arg unchanged", repr(q) == before)
        emit("  beats", qn)
        call("beats", lambda a: tm.beats(a, SNAPPER), q, tm)
    # offsets(): snaps -> ms
    bcs_s = tm.bpm_changes_snap()
    last = bcs_s[-1].snap
    snaps_on = [b.snap for b in bcs_s]
    snaps_rand = [Snap(random.randint(0, last.measure + 3), Fraction(random.randrange(0, 4 * d), d), 4)
                  for d in random.choices(DENS, k=random.randint(1, 12))]
    squeries = {
        "empty": [],
        "on_points": list(snaps_on),
        "on_points_rev": list(reversed(snaps_on)),
        "rand": snaps_rand,
        "ties": [snaps_rand[0], snaps_rand[0], snaps_on[-1], snaps_rand[0]],
        "tuple": tuple(snaps_rand[:2]),
        "none_metronome": [Snap(1, Fraction(1, 3), None), Snap(0, 0, None), Snap(last.measure, last.beat, None)],
        "float_beat": [Snap(0, 0.5, 4), Snap(2, 3.25, 4)],
        "nparray": np.array(sorted(snaps_rand)),
        "negative": [Snap(-1, 0, None), Snap(0, 1, 4)],
        "only_negative": [Snap(0, Fraction(-1, 4), None)],
    }
    for qn, q in squeries.items():
        before = repr(q)
        emit("  offsets", qn)
        call("offsets", tm.offsets, q, tm)
        emit("    arg unchanged", repr(q) == before)
    # round trip ms -> snaps -> ms
    try:
        rt = tm.offsets(tm.snaps(grid, SNAPPER))
        show_arr("roundtrip", rt)
    except Exception as e:  # noqa
        emit("    roundtrip raised", type(e).__name__)


k = 0
for n_bpm in (1, 2, 3, 5, 9, 30):
    for shuffle, direct in ((False, False), (True, False), (True, True)):
        k += 1
        tm_case(f"t{k}", n_bpm, first=0.0, shuffle=shuffle, direct=direct)
tm_case("late_first", 3, first=1234.5)
tm_case("negative_first", 3, first=-500.0)
tm_case("other_metronomes", 6, metronomes=(3, 4, 5, 7))
tm_case("other_metronomes_shuffled", 4, metronomes=(2, 4, 6), shuffle=True, direct=True)
# from snaps (BMS reader route), incl. off-measure tempo points (reseat)
emit("=== from_bpm_changes_snap")
for reseat in (False, True):
    bcs = [BpmChangeSnap(120, 4, Snap(0, 0, 4)), BpmChangeSnap(180, 4, Snap(2, 0, 4)),
           BpmChangeSnap(90, 4, Snap(3, 2, 4)), BpmChangeSnap(150, 4, Snap(7, 0, 4))]
    tm = TimingMap.from_bpm_changes_snap(0, bcs, reseat=reseat)
    show_tm(f"reseat={reseat}", tm)
    call("offsets", tm.offsets, [Snap(5, 1, 4), Snap(0, 0, 4), Snap(3, Fraction(5, 2), 4), Snap(9, 0, 4)], tm)
    call("snaps", lambda a: tm.snaps(a, SNAPPER), [0, 10000.0, 4000.0, 4000.0, 5333.3], tm)
# no tempo points at all
emit("=== empty timeline")
tm = TimingMap(bpm_changes_offset=[])
call("snaps", lambda a: tm.snaps(a, SNAPPER), [0.0], tm)
call("snaps_empty", lambda a: tm.snaps(a, SNAPPER), [], tm)
call("offsets", tm.offsets, [Snap(0, 0, 4)], tm)
call("offsets_empty", tm.offsets, [], tm)

# --- through the BMS writer / reader ---------------------------------------------
LAYOUTS = {"BMS": BMSChannel.BMS, "BME": BMSChannel.BME, "PMS": BMSChannel.PMS,
           "PMS_BME": BMSChannel.PMS_BME, "PMS_5B": BMSChannel.PMS_5B}
SAMPLES = {b"01": b"kick.wav", b"02": b"snare.wav", b"0A": b"hat.wav"}


def chart(layout, n_bpm, n_hit, n_hold, off_grid, shuffle, first=0.0):
    cols = sorted(v for v in layout.values() if isinstance(v, int))
    bcos, _ = timeline(n_bpm, first)
    pts = [(b.offset, b.bpm) for b in bcos]
    used = set()

    def pick():
        while True:
            i = random.randrange(len(pts))
            den = random.choice(DENS[:11])
            beat = Fraction(random.randrange(0, 4 * den), den)
            col = random.choice(cols)
            if (i, beat, col) in used:
                continue
            used.add((i, beat, col))
            t = pts[i][0] + float(beat) * 60000.0 / pts[i][1]
            if off_grid:
                t = max(first, t + random.uniform(-0.4, 0.4))
            return t, col

    hits = [BMSHit(*pick(), random.choice([b"kick.wav", b"", b"x.wav"])) for _ in range(n_hit)]
    holds = []
    for _ in range(n_hold):
        t, c = pick()
        holds.append(BMSHold(t, c, random.choice([1, 2, 3]) * 60000.0 / pts[0][1] / random.choice([1, 2, 4]),
                             random.choice([b"snare.wav", b""])))
    bpms = [BMSBpm(o, b) for o, b in pts]
    if shuffle:
        random.shuffle(hits), random.shuffle(holds), random.shuffle(bpms)
    m = BMSMap()
    m.title, m.artist, m.version = b"t", b"a", b"1"
    m.samples = dict(SAMPLES)
    m.bpms, m.hits, m.holds = BMSBpmList(bpms), BMSHitList(hits), BMSHoldList(holds)
    return m


def dump_list(name, lst):
    df = lst.df
    emit(name, list(df.columns), [str(t) for t in df.dtypes], list(df.index))
    for row in df.itertuples():
        emit("  ", tuple(repr(x) for x in row))


k = 0
for name, layout in LAYOUTS.items():
    for off_grid in (False, True):
        for n_hit, n_hold, first in ((0, 0, 0.0), (25, 0, 0.0), (0, 8, 0.0), (30, 8, 0.0), (12, 3, 750.0)):
            k += 1
            m = chart(layout, random.choice([1, 2, 4, 12, 45]), n_hit, n_hold, off_grid, bool(k % 2), first)
            emit("=== WRITE", k, name, off_grid, n_hit, n_hold, first)
            try:
                b = m.write(note_channel_config=layout)
                for ln in b.split(b"\r\n"):
                    emit("  L", ln.hex())
                r = BMSMap.read(b.decode("shift_jis").split("\r\n"), note_channel_config=layout)
                dump_list("rb.hits", r.hits), dump_list("rb.holds", r.holds), dump_list("rb.bpms", r.bpms)
            except Exception as e:  # noqa
                emit("  raised", type(e).__name__)
            dump_list("after.hits", m.hits), dump_list("after.holds", m.holds), dump_list("after.bpms", m.bpms)

print("DIGEST", hashlib.sha256("\n".join(OUT).encode()).hexdigest())
