"""C16 — timed lists behave like ordered collections of their rows (DESIGN §5 C16)."""
from __future__ import annotations

import ast
from typing import Dict, List, Optional, Tuple

from ..model import AnalysisError, walk_no_nested, params_of, TIMEDLIST, HOLDLIST, SERIES
from .. import report as R
from ..report import RuleSpec
from .. import codec as C
from .. import cmp as P
from .common import call_name, CTL, fn_loc, short, unparse, concrete_classes, returns_of
from . import c08

TL = TIMEDLIST
HL = HOLDLIST


def _kw(call: ast.Call, name: str, pos: Optional[int] = None):
    for k in call.keywords:
        if k.arg == name:
            return k.value
    if pos is not None and len(call.args) > pos:
        return call.args[pos]
    return None


def _calls(fn_node, attr: str) -> List[ast.Call]:
    return [n for n in walk_no_nested(fn_node) if isinstance(n, ast.Call) and isinstance(n.func, ast.Attribute)
            and n.func.attr == attr]


# --------------------------------------------------------------------------- R1
def rule_r1(ctx) -> List[R.Inst]:
    M = ctx.M
    q = TL + ".__getitem__"
    fn = M.nfn(q, guards=True)       # (a branch that returns followed by the rest reads as if / else)
    file, line = fn_loc(M, q)
    int_branch = None
    for n in walk_no_nested(fn.node):
        if isinstance(n, ast.If) and isinstance(n.test, ast.Call) and isinstance(n.test.func, ast.Name) and \
                n.test.func.id == "isinstance" and "int" in unparse(n.test.args[1]):
            int_branch = n
    if int_branch is None:
        return [R.undec("C16.R1", "TimedList.__getitem__", file, line, "no isinstance(item, int) dispatch found")]
    insts = []
    body_txt = [n for b in int_branch.body for n in ast.walk(b)]
    uses_iloc = any(isinstance(n, ast.Subscript) and isinstance(n.value, ast.Attribute) and n.value.attr == "iloc"
                    for n in body_txt)
    uses_label = any(isinstance(n, ast.Subscript) and isinstance(n.value, ast.Attribute) and n.value.attr in ("loc", "at")
                     for n in body_txt) or any(
        isinstance(n, ast.Subscript) and isinstance(n.value, ast.Attribute) and n.value.attr in ("df", "_df")
        for n in body_txt)
    sliced = [n for n in body_txt if isinstance(n, ast.Subscript) and isinstance(n.value, ast.Attribute) and
              n.value.attr == "iloc" and isinstance(n.slice, ast.Slice)]
    if sliced:
        insts.append(R.viol("C16.R1", "int-index", file, sliced[0].lineno,
                            f"the row is taken with the slice '{unparse(sliced[0])}': for item = -1 that is iloc[-1:0], an empty "
                            f"frame, so negative indices (tl[-1]) raise although a plain sequence returns the last element",
                            construct=unparse(sliced[0])))
    elif uses_iloc and not uses_label:
        insts.append(R.ok("C16.R1", "int-index", file, int_branch.lineno, idiom="self.df.iloc[item]"))
    else:
        insts.append(R.viol("C16.R1", "int-index", file, int_branch.lineno,
                            "an int index is not resolved by position (iloc): lists with non-default row labels "
                            "return the wrong row", construct=unparse(int_branch.body[0])[:160]))
    # what counts as an integer position: Python ints AND numpy integers (np.argmax, searchsorted, len-arithmetic on arrays all
    # return np.int64, and a plain sequence accepts them through __index__); `isinstance(item, int)` alone sends them to the
    # column-lookup branch (KeyError)
    t_ = unparse(int_branch.test.args[1])
    wide = any(w in t_ for w in ("np.integer", "numpy.integer", "Integral", "SupportsIndex")) or any(
        isinstance(x, ast.Call) and isinstance(x.func, ast.Attribute) and x.func.attr == "index" and unparse(x.func.value) == "operator"
        for x in ast.walk(fn.node))
    if wide:
        insts.append(R.ok("C16.R1", "int-kinds", file, int_branch.lineno, idiom=f"isinstance(item, {t_})"))
    else:
        insts.append(R.viol("C16.R1", "int-kinds", file, int_branch.lineno,
                            f"only 'isinstance(item, {t_})' selects the positional branch: a numpy integer (the result of np.argmax, "
                            f"searchsorted, ...) falls into the column lookup and raises KeyError, although a plain sequence accepts it",
                            construct=f"isinstance(item, {t_})"))
    # other indices: df[...] re-wrapped in the receiver's class
    good = False
    for n in int_branch.orelse:
        for x in ast.walk(n):
            if isinstance(x, ast.Call) and unparse(x.func) in ("self.__class__", "type(self)") and x.args and \
                    isinstance(x.args[0], ast.Subscript) and unparse(x.args[0].value) in ("self.df", "self._df"):
                good = True
    if good:
        insts.append(R.ok("C16.R1", "other-index", file, int_branch.lineno, idiom="self.__class__(self.df[item])"))
    else:
        insts.append(R.viol("C16.R1", "other-index", file, int_branch.lineno,
                            "a non-int index does not return self.__class__(self.df[item])",
                            construct=unparse(int_branch.orelse[0])[:160] if int_branch.orelse else "no else branch"))
    return insts


# --------------------------------------------------------------------------- R2
def rule_r2(ctx) -> List[R.Inst]:
    M = ctx.M
    insts = []
    q = TL + ".__len__"
    fn = M.fn(q)
    file, line = fn_loc(M, q)
    rets = returns_of(fn.node)
    if len(rets) == 1 and unparse(rets[0].value) in ("len(self.df)", "len(self._df)", "self.df.shape[0]", "len(self.df.index)"):
        insts.append(R.ok("C16.R2", "__len__", file, line, idiom=unparse(rets[0].value)))
    else:
        insts.append(R.viol("C16.R2", "__len__", file, line, "length is not the number of rows",
                            construct=unparse(rets[0].value) if rets else "no return"))
    q = TL + ".__iter__"
    fn = M.fn(q)
    file, line = fn_loc(M, q)
    loops = [n for n in walk_no_nested(fn.node) if isinstance(n, ast.For)]
    yields = [n for n in walk_no_nested(fn.node) if isinstance(n, ast.Yield)]
    ok_ = False
    why = "iteration shape not recognised"
    if len(loops) == 1 and len(yields) == 1:
        it = loops[0].iter
        txt = unparse(it)
        reordered = any(isinstance(n, ast.Call) and isinstance(n.func, (ast.Attribute, ast.Name)) and
                        (n.func.attr if isinstance(n.func, ast.Attribute) else n.func.id) in
                        ("sort_values", "sorted", "reversed", "sample", "sort_index") for n in ast.walk(it)) \
            or "[::-1]" in txt
        rows = any(isinstance(n, ast.Call) and isinstance(n.func, ast.Attribute) and n.func.attr in
                   ("iterrows", "itertuples", "to_dict") for n in ast.walk(it))
        via_item = "from_series" in unparse(yields[0]) or "_item_class" in unparse(yields[0])
        filtered = any(isinstance(n, (ast.If, ast.Continue, ast.Break)) for n in ast.walk(loops[0]))
        if rows and via_item and not reordered and not filtered:
            ok_ = True
        else:
            why = ("rows are re-ordered before iteration" if reordered else
                   "rows are skipped during iteration" if filtered else "rows are not yielded as items in row order")
    if ok_:
        insts.append(R.ok("C16.R2", "__iter__", file, line, idiom="one item per row, in row order"))
    else:
        insts.append(R.viol("C16.R2", "__iter__", file, line, why,
                            construct=unparse(loops[0])[:200] if loops else "no loop"))
    return insts


# --------------------------------------------------------------------------- R3
def _has_empty_guard(fn_node) -> bool:
    for s in fn_node.body:
        if isinstance(s, ast.If) and any(isinstance(x, ast.Return) for x in s.body):
            t = unparse(s.test)
            if ("len(" in t and ("== 0" in t or "< 1" in t or "not len" in t)) or ".empty" in t or t.startswith("not "):
                return True
    return False


def _running_extreme(fn_node, name: str):
    """`it = iter(S); name = next(it); for v in it: if v < name: name = v`  ->  ('min', S)   (`>`: 'max'; also `<=` / `>=`, the
    value is the same; also `for v in S` after `name = S[0]`-less seeds from next(iter(S))); None when ``name`` is bound any other way"""
    stores = [n for n in ast.walk(fn_node) if isinstance(n, ast.Name) and n.id == name and isinstance(n.ctx, ast.Store)]
    seeds = [n for n in walk_no_nested(fn_node) if isinstance(n, ast.Assign) and any(isinstance(t, ast.Name) and t.id == name for t in n.targets)
             and isinstance(n.value, ast.Call) and call_name(n.value) == "next" and len(n.value.args) == 1 and isinstance(n.value.args[0], ast.Name)]
    if len(seeds) != 1 or len(stores) != 2:
        return None
    itn = seeds[0].value.args[0].id
    its = [n for n in walk_no_nested(fn_node) if isinstance(n, ast.Assign) and len(n.targets) == 1 and isinstance(n.targets[0], ast.Name) and
           n.targets[0].id == itn]
    if len(its) != 1 or not (isinstance(its[0].value, ast.Call) and call_name(its[0].value) == "iter" and len(its[0].value.args) == 1):
        return None
    src = its[0].value.args[0]
    for lp in walk_no_nested(fn_node):
        if not (isinstance(lp, ast.For) and isinstance(lp.iter, ast.Name) and lp.iter.id == itn and isinstance(lp.target, ast.Name) and not lp.orelse):
            continue
        v = lp.target.id
        if any(isinstance(x, (ast.Break, ast.Continue, ast.Return)) for x in ast.walk(lp)):
            return None
        for st in lp.body:
            if isinstance(st, ast.If) and not st.orelse and len(st.body) == 1 and isinstance(st.body[0], ast.Assign) and \
                    len(st.body[0].targets) == 1 and isinstance(st.body[0].targets[0], ast.Name) and st.body[0].targets[0].id == name and \
                    isinstance(st.body[0].value, ast.Name) and st.body[0].value.id == v and isinstance(st.test, ast.Compare) and \
                    len(st.test.ops) == 1 and isinstance(st.test.left, ast.Name) and isinstance(st.test.comparators[0], ast.Name):
                l, r, op = st.test.left.id, st.test.comparators[0].id, st.test.ops[0]
                if (l, r) == (name, v):
                    l, r = v, name
                    op = {ast.Lt: ast.Gt, ast.LtE: ast.GtE, ast.Gt: ast.Lt, ast.GtE: ast.LtE}.get(type(op), type(None))()
                if (l, r) == (v, name) and isinstance(op, (ast.Lt, ast.LtE)):
                    return "min", src
                if (l, r) == (v, name) and isinstance(op, (ast.Gt, ast.GtE)):
                    return "max", src
    return None


def _reduce_of(fn_node) -> List[Tuple[str, ast.AST]]:
    """(reduction, operand) pairs of the final return: max(self.offset) -> ('max', self.offset)."""
    out = []
    for r in returns_of(fn_node):
        v = r.value
        vals = v.elts if isinstance(v, ast.Tuple) else [v]
        for x in vals:
            if isinstance(x, ast.Call) and isinstance(x.func, ast.Name) and x.func.id in ("max", "min") and x.args:
                out.append((x.func.id, x.args[0]))
            elif isinstance(x, ast.Call) and isinstance(x.func, ast.Attribute) and x.func.attr in ("max", "min"):
                out.append((x.func.attr, x.func.value))
            elif isinstance(x, ast.Call) and isinstance(x.func, ast.Attribute) and x.func.attr in ("first_offset", "last_offset"):
                out.append((x.func.attr, None))
            elif isinstance(x, ast.Constant) and x.value is None:
                continue
            elif isinstance(x, ast.Name) and _running_extreme(fn_node, x.id):
                out.append(_running_extreme(fn_node, x.id))
            elif isinstance(x, ast.Name) and any(isinstance(lp, (ast.For, ast.While)) and any(
                    isinstance(y, ast.Name) and y.id == x.id and isinstance(y.ctx, ast.Store) for y in ast.walk(lp)) for lp in ast.walk(fn_node)):
                out.append(("loop", x))         # computed by a loop of a shape that is not read
            else:
                out.append(("?", x))
    return out


def rule_r3(ctx) -> List[R.Inst]:
    M = ctx.M
    insts = []
    want = {
        (TL, "first_offset"): ("min", frozenset(["offset"])),
        (TL, "last_offset"): ("max", frozenset(["offset"])),
        (HL, "last_offset"): ("max", frozenset(["offset", "length"])),
    }
    for (c, name), (red, terms) in want.items():
        q = M.method(c, name)
        fn = M.fn(q)
        file, line = fn_loc(M, q)
        key = f"{c.split('.')[-1]}.{name}"
        reds = [r for r in _reduce_of(fn.node)]
        shape_ok = len(reds) == 1 and reds[0][0] == red and reds[0][1] is not None and \
            (P.self_terms(reds[0][1]) == terms or
             (terms == frozenset(["offset", "length"]) and unparse(reds[0][1]) in ("self.tail_offset",)))
        guard = _has_empty_guard(fn.node)
        if shape_ok and guard:
            insts.append(R.ok("C16.R3", key, file, line, idiom=f"{red}({'+'.join(sorted(terms))}) with empty guard"))
        elif not shape_ok and any(r[0] == "loop" for r in reds):
            insts.append(R.undec("C16.R3", key, file, line, f"{name} is computed by a loop whose shape is not recognised"))
        elif not shape_ok:
            insts.append(R.viol("C16.R3", key, file, line,
                                f"{name} is not {red} over {'+'.join(sorted(terms))} of all rows",
                                construct=unparse(returns_of(fn.node)[-1])[:160]))
        else:
            insts.append(R.viol("C16.R3", key, file, line,
                                f"{key} drops the empty-list guard its base has: an empty list raises instead of returning None",
                                construct=f"{key} without empty guard"))
    # first_last_offset: both ends, guarded (directly or through the guarded helpers)
    for c in (TL, HL):
        q = M.method(c, "first_last_offset")
        fn = M.fn(q)
        file, line = fn_loc(M, q)
        key = f"{c.split('.')[-1]}.first_last_offset"
        reds = _reduce_of(fn.node)
        kinds = [r[0] for r in reds]
        if kinds in (["min", "max"], ["first_offset", "last_offset"]):
            direct = kinds == ["min", "max"]
            if direct and not _has_empty_guard(fn.node):
                insts.append(R.viol("C16.R3", key, file, line, "no empty-list guard", construct=f"{key} without empty guard"))
            elif direct and not all(P.self_terms(r[1]) == frozenset(["offset"]) for r in reds):
                insts.append(R.viol("C16.R3", key, file, line, "ends are not min/max of the offsets",
                                    construct=unparse(returns_of(fn.node)[-1])))
            else:
                insts.append(R.ok("C16.R3", key, file, line, idiom="(first, last)"))
        elif "loop" in kinds:
            insts.append(R.undec("C16.R3", key, file, line, "the ends are computed by a loop whose shape is not recognised"))
        else:
            insts.append(R.viol("C16.R3", key, file, line, f"does not return (first, last): {kinds}",
                                construct=unparse(returns_of(fn.node)[-1])[:160]))
    # override-preserves-normalisation: HoldList.between accepts what TimedList.between accepts
    base = M.fn(TL + ".between")
    over = M.fn(M.method(HL, "between"))
    file, line = fn_loc(M, over.qual)
    def normalises(fn):
        return any(isinstance(n, (ast.If, ast.IfExp)) and "isinstance(include_ends, bool)" in unparse(n.test) for n in ast.walk(fn.node))
    if over.qual == base.qual:
        insts.append(R.ok("C16.R3", "HoldList.between.normalisation", file, line, idiom="inherits the base method"))
    elif normalises(base) and not normalises(over):
        insts.append(R.viol("C16.R3", "HoldList.between.normalisation", file, line,
                            "TimedList.between accepts a single bool for include_ends; the HoldList override indexes it "
                            "without that normalisation (a bool argument raises)",
                            construct="HoldList.between without isinstance(include_ends, bool)"))
    else:
        insts.append(R.ok("C16.R3", "HoldList.between.normalisation", file, line, idiom="bool include_ends normalised"))
    # move_start_to / move_end_to: every offset shifted by (to - first_offset()) / (to - last_offset()), on a copy
    for name, end in (("move_start_to", "first_offset"), ("move_end_to", "last_offset")):
        q = TL + "." + name
        if q not in M.funcs:
            continue
        fn = M.fn(q)
        file, line = fn_loc(M, q)
        key = f"TimedList.{name}"
        to = [a.arg for a in fn.node.args.args if a.arg != "self"][:1]
        augs = [n for n in walk_no_nested(fn.node) if isinstance(n, ast.AugAssign) and isinstance(n.op, ast.Add) and
                unparse(n.target).endswith(".offset")]
        if len(augs) != 1 or not to:
            insts.append(R.undec("C16.R3", key, file, line, "single `<copy>.offset += shift` expected"))
            continue
        sh = augs[0].value
        # resolve single-assignment locals in the shift
        env = {}
        for n in walk_no_nested(fn.node):
            if isinstance(n, ast.Assign) and isinstance(n.targets[0], ast.Name):
                env.setdefault(n.targets[0].id, []).append(n.value)

        def leaf(n):
            t = unparse(n)
            if isinstance(n, ast.Name) and len(env.get(n.id, [])) == 1:
                return leaf(env[n.id][0]) or unparse(env[n.id][0])
            if t in (f"self.{end}()",):
                return "END"
            if t == to[0]:
                return "TO"
            return None
        from .. import sym as _sym
        r = _sym.canon(sh, leaf)
        if r.same(_sym.parse("TO - END")):
            insts.append(R.ok("C16.R3", key, file, augs[0].lineno, idiom=f"offset += to - {end}()"))
        else:
            insts.append(R.viol("C16.R3", key, file, augs[0].lineno,
                                f"{name} must shift every offset by (to - {end}()), the {'earliest' if 'first' in end else 'latest'} "
                                f"offset of all rows whatever their order; the shift is '{unparse(sh)}'",
                                construct=f"{name}: offset += {unparse(sh)}"))
    return insts


# --------------------------------------------------------------------------- R4
def rule_r4(ctx) -> List[R.Inst]:
    M = ctx.M
    q = TL + ".sorted"
    fn = M.fn(q)
    file, line = fn_loc(M, q)
    calls = _calls(fn.node, "sort_values")
    if len(calls) != 1:
        return [R.undec("C16.R4", "sorted", file, line, f"{len(calls)} sort_values calls")]
    c = calls[0]
    insts = []
    by = _kw(c, "by", 0)
    by_ok = by is not None and (C.const_str(by) == "offset" or
                                (isinstance(by, ast.List) and [C.const_str(e) for e in by.elts] == ["offset"]))
    asc = _kw(c, "ascending")
    asc_ok = asc is not None and unparse(asc).replace(" ", "") in ("notreverse", "(notreverse)", "reverseisFalse", "reverse==False")
    kind = _kw(c, "kind")
    stable = kind is not None and C.const_str(kind) in ("stable", "mergesort")
    wrapped = any(isinstance(n, ast.Call) and unparse(n.func) in ("self.__class__", "type(self)") for n in ast.walk(fn.node))
    inplace = _kw(c, "inplace")
    if by_ok and asc_ok and wrapped and inplace is None:
        insts.append(R.ok("C16.R4", "sorted.key-direction", file, c.lineno, idiom="sort_values('offset', ascending=not reverse)"))
    else:
        insts.append(R.viol("C16.R4", "sorted.key-direction", file, c.lineno,
                            "sorted() does not sort by offset with ascending = not reverse into a new list",
                            construct=unparse(c)[:160]))
    rets = returns_of(fn.node)
    other = [r for r in rets if r.value is None or not any(x is c for x in ast.walk(r.value))]
    if other:
        insts.append(R.viol("C16.R4", "sorted.new-list", file, other[0].lineno,
                            f"a path returns '{unparse(other[0].value) if other[0].value is not None else None}' instead of the sorted copy: sorting a "
                            f"sequence always yields a NEW sequence, here the caller gets the list itself back and an edit of the result "
                            f"edits the original", construct=f"sorted: return {unparse(other[0].value) if other[0].value is not None else None}"))
    else:
        insts.append(R.ok("C16.R4", "sorted.new-list", file, c.lineno, idiom="every path returns the sorted copy"))
    if stable:
        insts.append(R.ok("C16.R4", "sorted.stable", file, c.lineno, idiom=f"kind={C.const_str(kind)!r}"))
    else:
        insts.append(R.viol("C16.R4", "sorted.stable", file, c.lineno,
                            "sort_values uses the default (unstable) quicksort: rows with equal offsets may be reordered, "
                            "unlike a sequence sort", construct=unparse(c)[:160]))
    return insts


# --------------------------------------------------------------------------- R5
def rule_r5(ctx) -> List[R.Inst]:
    M = ctx.M
    q = TL + ".append"
    fn = M.nfn(q)
    file, line = fn_loc(M, q)
    calls = [n for n in walk_no_nested(fn.node) if isinstance(n, ast.Call) and unparse(n.func).endswith("concat")]
    if len(calls) != 1 or not calls[0].args or not isinstance(calls[0].args[0], (ast.List, ast.Tuple)):
        return [R.undec("C16.R5", "append", file, line, "concat call not recognised")]
    c = calls[0]
    parts = [unparse(e) for e in c.args[0].elts]
    ign = _kw(c, "ignore_index")
    # the appended rows: the parameter itself, or a local every definition of which is derived from the parameter
    pnames = [a.arg for a in fn.node.args.args if a.arg != "self"]
    vparam = pnames[0] if pnames else "val"
    rowvar = parts[1] if len(parts) == 2 else None
    row_defs = [n for n in walk_no_nested(fn.node) if isinstance(n, ast.Assign) and isinstance(n.targets[0], ast.Name) and n.targets[0].id == rowvar]
    from_param = rowvar == vparam or (bool(row_defs) and rowvar is not None and rowvar.isidentifier() and all(
        any(isinstance(x, ast.Name) and x.id == vparam for x in ast.walk(d_.value)) for d_ in row_defs))
    order_ok = len(parts) == 2 and parts[0] in ("self.df", "self._df") and from_param
    ign_ok = isinstance(ign, ast.Constant) and ign.value is True
    sort_ok = any(isinstance(n, ast.IfExp) and unparse(n.test) == "sort" and "sorted" in unparse(n.body) and
                  "sorted" not in unparse(n.orelse) for n in ast.walk(fn.node)) or any(
        isinstance(n, ast.If) and unparse(n.test) == "sort" and any("sorted" in unparse(b_) or ".sort(" in unparse(b_) for b_ in n.body) and
        not any("sorted" in unparse(b_) for b_ in n.orelse) for n in ast.walk(fn.node))
    # the concatenated frame is what the new list holds: no cast / reshaping between the concat and the constructor
    ctor = [n for n in walk_no_nested(fn.node) if isinstance(n, ast.Call) and unparse(n.func) in ("self.__class__", "type(self)")]
    carried = None
    if ctor and ctor[0].args:
        a0 = ctor[0].args[0]
        if a0 is c or any(x is c for x in ast.walk(a0)) and not any(isinstance(x, ast.Call) and x is not c and isinstance(x.func, ast.Attribute)
                                                                  and any(y is c for y in ast.walk(x.func.value)) for x in ast.walk(a0)):
            carried = True
        elif isinstance(a0, ast.Name):
            defs_ = [n for n in walk_no_nested(fn.node) if isinstance(n, ast.Assign) and isinstance(n.targets[0], ast.Name) and n.targets[0].id == a0.id]
            carried = len(defs_) == 1 and defs_[0].value is c
            if not carried and defs_:
                extra = [unparse(d_.value)[:70] for d_ in defs_ if d_.value is not c]
                if order_ok and ign_ok and sort_ok:
                    return [R.viol("C16.R5", "append", file, defs_[-1].lineno,
                                   f"the concatenated rows are transformed before they become the new list ('{extra[0]}'): appending must keep "
                                   f"every value as it is (a cast to the receiver's dtypes truncates a fractional value appended to an "
                                   f"integer-typed list)", construct=f"append: {extra[0]}")]
    # an item / Series is turned into a one-row frame by transposing it: `.T` of a mixed-type Series gives a frame whose columns
    # are ALL object-typed, and the concat then degrades every column of the list to object (np.isnan, arithmetic dtypes and
    # integer indexing downstream break) unless the row is re-typed first
    degrade = []
    for n in walk_no_nested(fn.node):
        if isinstance(n, ast.Assign) and isinstance(n.targets[0], ast.Name) and n.targets[0].id in (vparam, rowvar):
            v = n.value
            has_T = any(isinstance(x, ast.Attribute) and x.attr == "T" for x in ast.walk(v))
            retyped = any(isinstance(x, ast.Call) and isinstance(x.func, ast.Attribute) and x.func.attr in ("infer_objects", "astype", "convert_dtypes")
                          for x in ast.walk(v))
            if has_T and not retyped:
                degrade.append(n)
    if degrade and order_ok and ign_ok and sort_ok:
        return [R.viol("C16.R5", "append", file, degrade[0].lineno,
                       f"'{unparse(degrade[0])}' builds the appended row by transposing a Series: all its columns are object-typed, so after "
                       f"the concat every column of the list is object-typed (a list extended by an item is no longer numeric: np.isnan on "
                       f"its lengths raises, e.g. in hitsound_copy)", construct=f"append: {unparse(degrade[0].value)} without infer_objects()")]
    # every exit of the function hands back the concatenated list: a path that returns something else (a short cut for an empty
    # receiver or an empty value) must still honour the sort flag — otherwise it is a path on which `sort=True` is ignored
    derived = {n.targets[0].id for n in walk_no_nested(fn.node) if isinstance(n, ast.Assign) and isinstance(n.targets[0], ast.Name)
               and any(x is c for x in ast.walk(n.value))}
    for _ in range(3):
        derived |= {n.targets[0].id for n in walk_no_nested(fn.node) if isinstance(n, ast.Assign) and isinstance(n.targets[0], ast.Name)
                    and any(isinstance(x, ast.Name) and x.id in derived for x in ast.walk(n.value))}
    for r in returns_of(fn.node):
        if r.value is None or any(x is c for x in ast.walk(r.value)) or any(isinstance(x, ast.Name) and x.id in derived for x in ast.walk(r.value)):
            continue
        honours = any(isinstance(x, ast.IfExp) and unparse(x.test) == "sort" and "sorted" in unparse(x.body) for x in ast.walk(r.value))
        if order_ok and ign_ok and sort_ok:
            if honours:
                return [R.undec("C16.R5", "append", file, r.lineno, f"a second exit 'return {unparse(r.value)[:70]}' builds the result without the concat: "
                                                                    f"whether it holds the same rows is not decided")]
            return [R.viol("C16.R5", "append", file, r.lineno,
                           f"the exit 'return {unparse(r.value)[:70]}' hands back a list that did not pass 'sorted() if sort': on this path "
                           f"append(.., sort=True) returns the rows unsorted", construct=f"append: early return {unparse(r.value)[:90]}")]
    if order_ok and ign_ok and sort_ok:
        return [R.ok("C16.R5", "append", file, c.lineno, idiom="concat([self.df, val], ignore_index=True); sorted iff sort")]
    why = []
    if not order_ok:
        why.append(f"rows are concatenated as {parts}, not [self, val]")
    if not ign_ok:
        why.append("the result keeps the old row labels (no ignore_index=True)")
    if not sort_ok:
        why.append("sorting is not conditional on the sort flag")
    return [R.viol("C16.R5", "append", file, c.lineno, "; ".join(why), construct=unparse(c)[:160])]


# --------------------------------------------------------------------------- R6
SPEC6 = {
    # (class, method): (flag names, expected(flags) -> (terms, op))
    (TL, "after"): (["include_end"], lambda f: (frozenset(["offset"]), ">=" if f["include_end"] else ">")),
    (TL, "before"): (["include_end"], lambda f: (frozenset(["offset"]), "<=" if f["include_end"] else "<")),
    (HL, "after"): (["include_end", "include_tail"],
                    lambda f: (frozenset(["offset", "length"]) if f["include_tail"] else frozenset(["offset"]),
                               ">=" if f["include_end"] else ">")),
    (HL, "before"): (["include_end", "include_head"],
                     lambda f: (frozenset(["offset"]) if f["include_head"] else frozenset(["offset", "length"]),
                                "<=" if f["include_end"] else "<")),
}


def _between_plumbing(fn: ast.FunctionDef) -> Optional[Dict[str, Dict[str, str]]]:
    """self.after(a, x, ...).before(b, y, ...) -> {'after': {...args}, 'before': {...}} as source text."""
    from .common import inline_locals
    # a pair normalised under another name (`ends = (x, x) if isinstance(x, bool) else x`) is the parameter it normalises
    alias = {}
    for n in ast.walk(fn):
        if isinstance(n, ast.Assign) and len(n.targets) == 1 and isinstance(n.targets[0], ast.Name) and isinstance(n.value, ast.IfExp) and \
                "isinstance(" in unparse(n.value.test) and isinstance(n.value.orelse, ast.Name) and isinstance(n.value.body, ast.Tuple) and \
                all(unparse(e_) == n.value.orelse.id for e_ in n.value.body.elts):
            alias[n.targets[0].id] = n.value.orelse.id
    for r in returns_of(fn):
        v = r.value
        if isinstance(v, ast.Call) and isinstance(v.func, ast.Attribute) and isinstance(v.func.value, ast.Name):
            v = inline_locals(fn, v, kinds=(ast.Call,))          # from_lower = self.after(..); return from_lower.before(..)
        if alias:
            import copy as _copy

            class _A(ast.NodeTransformer):
                def visit_Name(self, n_):
                    return ast.copy_location(ast.Name(id=alias[n_.id], ctx=n_.ctx), n_) if n_.id in alias and isinstance(n_.ctx, ast.Load) else n_
            v = _A().visit(_copy.deepcopy(v))
        if isinstance(v, ast.Call) and isinstance(v.func, ast.Attribute) and isinstance(v.func.value, ast.Call) \
                and isinstance(v.func.value.func, ast.Attribute) and unparse(v.func.value.func.value) == "self":
            outer, inner = v, v.func.value
            def args(c):
                d = {f"#{i}": unparse(a) for i, a in enumerate(c.args)}
                d.update({k.arg: unparse(k.value) for k in c.keywords})
                return d
            return {inner.func.attr: args(inner), outer.func.attr: args(outer)}
    return None


def _expand_props(M, cls: str, e: ast.AST, depth: int = 2) -> ast.AST:
    """`self.p` with p a read-only @property of the class whose body is one `return <expression over self>` is that expression
    (HoldList.tail_offset is self.offset + self.length; head_offset is self.offset)"""
    import copy as _copy

    class X(ast.NodeTransformer):
        def visit_Attribute(self, n):
            n = self.generic_visit(n)
            if isinstance(n.value, ast.Name) and n.value.id == "self" and isinstance(n.ctx, ast.Load) and depth > 0:
                q = M.method(cls, n.attr)
                f = M.funcs.get(q) if q else None
                if f is not None and any(unparse(d) == "property" for d in f.node.decorator_list):
                    body = [b for b in f.node.body if not (isinstance(b, ast.Expr) and isinstance(b.value, ast.Constant))]
                    if len(body) == 1 and isinstance(body[0], ast.Return) and body[0].value is not None:
                        return _expand_props(M, cls, _copy.deepcopy(body[0].value), depth - 1)
            return n
    return X().visit(_copy.deepcopy(e))


def rule_r6(ctx) -> List[R.Inst]:
    M = ctx.M
    insts = []
    for (c, name), (flagnames, expect) in SPEC6.items():
        q = M.method(c, name)
        fn = M.nfn(q, subst=True)
        file, line = fn_loc(M, q)
        ps = params_of(fn.node)
        bound = ps[1]
        for flags in P.all_flag_values(flagnames):
            key = f"{c.split('.')[-1]}.{name}[{','.join(f'{k}={int(v)}' for k, v in flags.items())}]"
            try:
                e = _expand_props(M, c, P.returned_expr(fn.node, flags))
                terms, op, rhs = P.filter_shape(e)
            except C.Unknown as ex:
                insts.append(R.undec("C16.R6", key, file, line, str(ex)))
                continue
            wt, wop = expect(flags)
            if terms == wt and op == wop and rhs == bound:
                insts.append(R.ok("C16.R6", key, file, line, idiom=f"{'+'.join(sorted(terms))} {op} {rhs}"))
            else:
                insts.append(R.viol("C16.R6", key, file, line,
                                    f"keeps rows with {'+'.join(sorted(terms))} {op} {rhs}; a sequence filter keeps "
                                    f"{'+'.join(sorted(wt))} {wop} {bound}",
                                    construct=f"{key}: {unparse(e)}"))
    # between plumbing
    for c, want in ((TL, dict(after={"#0": "lower_bound", "#1": "include_ends[0]"},
                              before={"#0": "upper_bound", "#1": "include_ends[1]"})),
                    (HL, dict(after={"#0": "lower_bound", "include_end": "include_ends[0]", "include_tail": "include_tail"},
                              before={"#0": "upper_bound", "include_end": "include_ends[1]", "include_head": "include_head"}))):
        q = M.method(c, "between")
        fn = M.fn(q)
        file, line = fn_loc(M, q)
        key = f"{c.split('.')[-1]}.between"
        got = _between_plumbing(fn.node)
        if got is None:
            insts.append(R.undec("C16.R6", key, file, line, "not of the form self.after(...).before(...)"))
            continue

        def norm(d, meth):
            # positional -> keyword names of the callee
            callee = M.fn(M.method(c, meth))
            names = params_of(callee.node)[1:]
            out = {}
            for k, v in d.items():
                if k.startswith("#"):
                    i = int(k[1:])
                    out[names[i] if i < len(names) else k] = v
                else:
                    out[k] = v
            return out
        ok_ = set(got) == {"after", "before"}
        if ok_:
            for meth in ("after", "before"):
                g, w = norm(got[meth], meth), norm(want[meth], meth)
                if g != w:
                    ok_ = False
        if ok_:
            insts.append(R.ok("C16.R6", key, file, line, idiom="after(lower, ends[0]).before(upper, ends[1])"))
        else:
            insts.append(R.viol("C16.R6", key, file, line,
                                f"bounds / inclusive flags are plumbed as {got}", construct=f"{key}: {got}"))
    return insts


# --------------------------------------------------------------------------- R7
def ctor_fields(ctx, c: str) -> Tuple[set, Optional[ast.AST]]:
    """Keyword names an item constructor finally hands to Series.__init__."""
    M = ctx.M
    out = set()
    owner = None
    node = None
    cur = M.method(c, "__init__")
    hops = 0
    while cur is not None and hops < 12:
        hops += 1
        fn = M.funcs[cur]
        if fn.cls == SERIES:
            break
        sup = [n for n in walk_no_nested(fn.node) if isinstance(n, ast.Call) and isinstance(n.func, ast.Attribute)
               and n.func.attr == "__init__" and isinstance(n.func.value, ast.Call) and
               isinstance(n.func.value.func, ast.Name) and n.func.value.func.id == "super"]
        if len(sup) != 1:
            raise AnalysisError(f"{cur}: expected exactly one super().__init__ call")
        if node is None:
            node = sup[0]
        for k in sup[0].keywords:
            if k.arg is not None:
                out.add(k.arg)
        cur = M.method_after(c, fn.cls, "__init__")
    return out, node


def ctor_alterations(ctx, c: str) -> List[Tuple[str, str, str, int]]:
    """(field, expression, defining class, line) for every field an item constructor chain does not pass on as the
    same-named parameter it received, plus statements of an __init__ other than the super().__init__ call."""
    M = ctx.M
    out = []
    cur = M.method(c, "__init__")
    hops = 0
    while cur is not None and hops < 12:
        hops += 1
        fn = M.funcs[cur]
        if fn.cls == SERIES:
            break
        params = {a.arg for a in fn.node.args.args + fn.node.args.kwonlyargs}
        sup = [n for n in walk_no_nested(fn.node) if isinstance(n, ast.Call) and isinstance(n.func, ast.Attribute)
               and n.func.attr == "__init__" and isinstance(n.func.value, ast.Call) and
               isinstance(n.func.value.func, ast.Name) and n.func.value.func.id == "super"]
        if len(sup) != 1:
            break
        for k in sup[0].keywords:
            if k.arg is None:
                continue
            if not (isinstance(k.value, ast.Name) and k.value.id == k.arg and k.arg in params):
                out.append((k.arg, unparse(k.value), fn.cls, k.value.lineno))
        for st in fn.node.body:
            if isinstance(st, ast.Expr) and isinstance(st.value, ast.Constant):
                continue
            if isinstance(st, ast.Expr) and st.value is sup[0]:
                continue
            out.append(("<body>", unparse(st)[:80], fn.cls, st.lineno))
        cur = M.method_after(c, fn.cls, "__init__")
    return out


def rule_r7(ctx) -> List[R.Inst]:
    M = ctx.M
    insts = []
    for c in concrete_classes(M, "item"):
        if c == SERIES:
            continue
        declared = set(M.item_fields(c))
        got, node = ctor_fields(ctx, c)
        init = M.method(c, "__init__")
        file, line = fn_loc(M, init)
        key = f"{c.split('.')[-1]}.__init__"
        # two sources of a field's default — the constructor signature and the declared _props — must agree at least in type:
        # lists built through empty() / from_dict / converters carry the declared default, items built by hand the constructor's
        own_init = M.funcs.get(init) if isinstance(init, str) else None
        if own_init is not None and own_init.cls == c:
            a_ = own_init.node.args
            names_ = [x.arg for x in a_.args][1:]
            dm_ = dict(zip(names_[::-1], a_.defaults[::-1]))
            fields_ = M.item_fields(c)
            for fld_, dnode_ in sorted(dm_.items()):
                if fld_ not in fields_:
                    continue
                try:
                    cv_ = ast.literal_eval(dnode_)
                except Exception:
                    continue
                dv_ = fields_[fld_][1]
                num_ = (int, float)
                same_type = type(cv_) is type(dv_) or (isinstance(cv_, num_) and isinstance(dv_, num_) and not isinstance(cv_, bool)
                                                       and not isinstance(dv_, bool))
                if not same_type:
                    insts.append(R.viol("C16.R7", f"{c.split('.')[-1]}.default:{fld_}", file, dnode_.lineno,
                                        f"'{fld_}' defaults to {cv_!r} ({type(cv_).__name__}) in the constructor but to {dv_!r} "
                                        f"({type(dv_).__name__}) in the declared fields: lists built through empty(), from_dict or a converter "
                                        f"carry a value of the other type (a BMS chart made by a converter has sample 0 where every reader of "
                                        f"the column expects bytes)", construct=f"{c.split('.')[-1]}.{fld_}: ctor {cv_!r} vs declared {dv_!r}"))
                    insts[-1].reach = (TL + ".empty", TL + ".from_dict", init)
        alt = ctor_alterations(ctx, c)
        if got == declared and alt:
            f_, e_, k_, ln_ = alt[0]
            afile = M.mods[M.classes[k_].mod].rel
            what = (f"field '{f_}' is handed on as '{e_}'" if f_ != "<body>" else f"the constructor also runs '{e_}'")
            insts.append(R.viol("C16.R7", key, afile, ln_,
                                f"{k_.split('.')[-1]}.__init__: {what}, not the value it was given: an item built from a row (indexing, "
                                f"iteration) or a list built from items no longer carries the given values",
                                construct=f"{c.split('.')[-1]} via {k_.split('.')[-1]}: {f_}={e_}"))
        elif got == declared:
            insts.append(R.ok("C16.R7", key, file, line, idiom=f"{len(declared)} kwargs = declared fields, each passed on unchanged"))
        else:
            extra, missing = sorted(got - declared), sorted(declared - got)
            insts.append(R.viol("C16.R7", key, file, node.lineno if node is not None else line,
                                f"constructor forwards {('undeclared ' + str(extra)) if extra else ''}"
                                f"{' and omits ' + str(missing) if missing else ''}: lists built from items get "
                                f"{'an extra' if extra else 'a missing'} column",
                                construct=f"{c.split('.')[-1]} extra={extra} missing={missing}"))
    return insts


# --------------------------------------------------------------------------- R8
def rule_r8(ctx) -> List[R.Inst]:
    M = ctx.M
    insts = list(i for i in c08.rule_r7(ctx))
    for i in insts:
        i.rule = "C16.R8"
    # default frame of an empty list: DataFrame(self._default())[:0]
    q = TL + ".__init__"
    fn = M.fn(q)
    file, line = fn_loc(M, q)
    ok_ = any(isinstance(n, ast.Call) and unparse(n.func).endswith("DataFrame") and n.args and
              "_default()" in unparse(n.args[0]) for n in ast.walk(fn.node))
    if ok_:
        insts.append(R.ok("C16.R8", "TimedList.__init__.empty-frame", file, line, idiom="DataFrame(self._default())[:0]"))
    else:
        insts.append(R.viol("C16.R8", "TimedList.__init__.empty-frame", file, line,
                            "an empty list is not built from the declared default columns",
                            construct="TimedList.__init__ empty branch"))
    # from_dict: rejects unknown columns, adds every missing declared column
    q = TL + ".from_dict"
    fn = M.nfn(q, subst=True)
    file, line = fn_loc(M, q)
    # ... and keeps the rows it is given: one row per record, in order
    ROWOPS = ("drop_duplicates", "dropna", "sort_values", "sort_index", "sample", "head", "tail", "query", "nlargest", "nsmallest",
              "groupby", "unique", "iloc", "loc")
    rowops = [n for n in ast.walk(fn.node) if isinstance(n, ast.Call) and isinstance(n.func, ast.Attribute) and n.func.attr in ROWOPS[:-2]]
    if rowops:
        insts.append(R.viol("C16.R8", "TimedList.from_dict.rows", file, rowops[0].lineno,
                            f"from_dict passes the records through '{rowops[0].func.attr}': a list built from a dict has one row per record, in "
                            f"the given order (two equal records are two objects)", construct=f"from_dict: {unparse(rowops[0])[:80]}"))
    else:
        insts.append(R.ok("C16.R8", "TimedList.from_dict.rows", file, line, idiom="no row-dropping / reordering operation"))
    rejects = any(isinstance(n, ast.If) and any(isinstance(x, ast.Raise) for x in n.body) and "columns" in unparse(n.test)
                  for n in ast.walk(fn.node))
    fills = False
    from ..normal import _guards_to_else
    import copy as _copy
    for n in ast.walk(fn.node):
        if isinstance(n, ast.For) and "_props" in unparse(n.iter):
            # `if name in df: continue` followed by the fill is `if name in df: continue else: <fill>`
            body_ = _guards_to_else(_copy.deepcopy(n.body))
            for x in (y for b_ in body_ for y in ast.walk(b_)):
                if not (isinstance(x, ast.If) and isinstance(x.test, ast.Compare) and len(x.test.ops) == 1):
                    continue
                stores_ = lambda blk: any(isinstance(y, ast.Assign) and isinstance(y.targets[0], ast.Subscript) for b2 in blk for y in ast.walk(b2))  # noqa: E731
                if isinstance(x.test.ops[0], ast.NotIn) and stores_(x.body):
                    fills = True
                if isinstance(x.test.ops[0], ast.In) and stores_(x.orelse) and not stores_(x.body):
                    fills = True
    # column-wise form: {name: <default column> for name, (type, default) in <…>._props.items() if name not in <given>} joined to the
    # frame side by side (concat(axis=1) / assign(**fill) / join)
    for n in ast.walk(fn.node):
        if isinstance(n, ast.DictComp) and len(n.generators) == 1 and "_props" in unparse(n.generators[0].iter) and \
                any(isinstance(t, ast.Compare) and len(t.ops) == 1 and isinstance(t.ops[0], ast.NotIn) for t in n.generators[0].ifs):
            holder = next((x.targets[0].id for x in ast.walk(fn.node) if isinstance(x, ast.Assign) and x.value is n and isinstance(x.targets[0], ast.Name)), None)
            joined = False
            for c in ast.walk(fn.node):
                if isinstance(c, ast.Call) and call_name(c) == "concat" and any(k.arg == "axis" and unparse(k.value) == "1" for k in c.keywords) and \
                        any((x is n) or (isinstance(x, ast.Name) and x.id == holder) for x in ast.walk(c)):
                    joined = True
                if isinstance(c, ast.Call) and call_name(c) in ("assign", "join") and \
                        any((x is n) or (isinstance(x, ast.Name) and x.id == holder) for x in ast.walk(c)):
                    joined = True
            if joined:
                fills = True
    # the fill must be able to replicate every declared default: a bare `df[col] = default` lets pandas treat a
    # list-valued default as a column of values (length mismatch / wrong cells) — only scalars broadcast
    seq_defaults = []
    for ic in sorted(c for c in M.classes if CTL not in c and M.class_kind(c) == "item"):
        for f, (dt, dflt) in M.item_fields(ic).items():
            try:
                v = M.lit(M.classes[ic].mod, dflt) if isinstance(dflt, ast.AST) else dflt
            except Exception:
                continue
            if isinstance(v, (list, dict, tuple, set)):
                seq_defaults.append(f"{ic.rsplit('.', 1)[1]}.{f}={v!r}")
    bare = None
    for n in ast.walk(fn.node):
        if isinstance(n, ast.For) and "_props" in unparse(n.iter) and isinstance(n.target, ast.Tuple):
            names = [x.id for x in ast.walk(n.target) if isinstance(x, ast.Name)]
            dv = names[-1] if names else None
            for y in ast.walk(n):
                if isinstance(y, ast.Assign) and isinstance(y.targets[0], ast.Subscript) and isinstance(y.value, ast.Name) and y.value.id == dv:
                    bare = y
    if bare is not None and seq_defaults:
        insts.append(R.viol("C16.R8", "TimedList.from_dict.default-broadcast", file, bare.lineno,
                            f"a missing declared column is filled with the raw default ('{unparse(bare)}'): pandas broadcasts scalars "
                            f"only, so the list-valued default(s) {sorted(set(seq_defaults))[:3]} raise 'Length of values (0) does not "
                            f"match length of index' — those list classes cannot be built from dicts that omit the field",
                            construct=f"from_dict: {unparse(bare)} with sequence defaults"))
    else:
        insts.append(R.ok("C16.R8", "TimedList.from_dict.default-broadcast", file, line,
                          idiom="declared defaults are replicated per row" if bare is None else "all declared defaults are scalars"))
    if rejects and fills:
        insts.append(R.ok("C16.R8", "TimedList.from_dict", file, line, idiom="reject unknown columns, fill missing declared ones"))
    else:
        insts.append(R.viol("C16.R8", "TimedList.from_dict", file, line,
                            ("unknown columns are accepted" if not rejects else "missing declared columns are not filled"),
                            construct=f"from_dict rejects={rejects} fills={fills}"))
    return insts


# --------------------------------------------------------------------------- R9
def rule_r9(ctx) -> List[R.Inst]:
    M = ctx.M
    insts = []
    q = "reamber.base.Property.item_props.<locals>.gen_props.<locals>._from_series_allowed_names"
    fn = M.fn(q)
    file, line = fn_loc(M, q)
    txt = unparse(fn.node)
    rets = returns_of(fn.node)
    # names the getter takes from the decorator's scope (computed once at decoration time) are read where they are bound
    outer = M.funcs.get("reamber.base.Property.item_props.<locals>.gen_props")
    if outer is not None and rets:
        for x in ast.walk(rets[0].value):
            if isinstance(x, ast.Name) and x.id not in ("props",):
                ds = [st.value for st in outer.node.body if isinstance(st, ast.Assign) and len(st.targets) == 1 and isinstance(st.targets[0], ast.Name) and
                      st.targets[0].id == x.id]
                if len(ds) == 1:
                    txt += " ; " + unparse(ds[0])
    own = len(rets) == 1 and "props.keys()" in unparse(rets[0].value) and "names" in unparse(rets[0].value)
    bases = "cl.__bases__" in txt and "_from_series_allowed_names()" in txt
    if own and bases:
        insts.append(R.ok("C16.R9", "allowed-names", file, line, idiom="names of all bases + own declared fields"))
    else:
        insts.append(R.viol("C16.R9", "allowed-names", file, line,
                            "the generated allow-list is not (fields of all bases) + (own declared fields)",
                            construct=unparse(rets[0].value)[:160] if rets else "no return"))
    q = SERIES + ".from_series"
    fn = M.nfn(q, subst=True)      # locals bound once (the row dict, the allow-list) put back into the expression
    file, line = fn_loc(M, q)
    txt = unparse(fn.node)
    def _allow_list(e):
        """cls._from_series_allowed_names(), or a local bound once to it (looked up once per row instead of once per label)"""
        if isinstance(e, ast.Name):
            ds = [x.value for x in walk_no_nested(fn.node) if isinstance(x, ast.Assign) and len(x.targets) == 1 and
                  isinstance(x.targets[0], ast.Name) and x.targets[0].id == e.id]
            return len(ds) == 1 and _allow_list(ds[0])
        return isinstance(e, ast.Call) and not e.args and isinstance(e.func, ast.Attribute) and \
            e.func.attr == "_from_series_allowed_names" and isinstance(e.func.value, ast.Name) and e.func.value.id in ("cls", "self")
    filt = any(isinstance(n, ast.DictComp) and n.generators[0].ifs and
               isinstance(n.generators[0].ifs[0], ast.Compare) and isinstance(n.generators[0].ifs[0].ops[0], ast.In) and
               _allow_list(n.generators[0].ifs[0].comparators[0])
               for n in ast.walk(fn.node))
    def _kv(n):
        # {k: v for k, v in <items>}: key and value are the two unpacked names themselves, whatever they are called
        t = n.generators[0].target
        return isinstance(t, ast.Tuple) and len(t.elts) == 2 and all(isinstance(x, ast.Name) for x in t.elts) and \
            unparse(n.key) == t.elts[0].id and unparse(n.value) == t.elts[1].id
    def _all_cells(n):
        # ... and <items> is ALL cells of the row: <row param>.to_dict().items() (a dropna() / filter in between loses the row's NaN cells:
        # the item then carries the constructor's default where the row says NaN)
        it = n.generators[0].iter
        p_row = [a.arg for a in fn.node.args.args if a.arg not in ("cls", "self")]
        return isinstance(it, ast.Call) and call_name(it) == "items" and unparse(it.func.value) in (f"{p_row[0]}.to_dict()", f"dict({p_row[0]})", p_row[0]) \
            if p_row else False
    keeps = any(isinstance(n, ast.DictComp) and _kv(n) and _all_cells(n) for n in ast.walk(fn.node))
    reraises = any(isinstance(n, ast.ExceptHandler) and any(isinstance(x, ast.Raise) for x in n.body) for n in ast.walk(fn.node))
    if filt and keeps and reraises:
        insts.append(R.ok("C16.R9", "from_series", file, line, idiom="cls(**{k: v if k allowed}); missing field re-raised"))
    else:
        insts.append(R.viol("C16.R9", "from_series", file, line,
                            "an item built from a row does not carry exactly the row's declared values",
                            construct=f"from_series filter={filt} keeps={keeps} reraises={reraises}"))
    return insts


def rule_r10(ctx) -> List[R.Inst]:
    """hold ends: head_offset = offset, tail_offset = offset + length, on lists and on items"""
    from .. import sym
    M = ctx.M
    insts = []
    for q, want in ((HL + ".head_offset", "offset"), (HL + ".tail_offset", "offset + length"),
                    ("reamber.base.Hold.Hold.tail_offset", "offset + length")):
        fn = M.fn(q)
        file, line = fn_loc(M, q)
        rets = [n for n in walk_no_nested(fn.node) if isinstance(n, ast.Return) and n.value is not None]
        key = ".".join(q.rsplit(".", 2)[-2:])
        if len(rets) != 1:
            insts.append(R.undec("C16.R10", key, file, line, "single return expected"))
            continue
        lf = lambda n: (n.attr if isinstance(n, ast.Attribute) and isinstance(n.value, ast.Name) and n.value.id == "self" else None)  # noqa: E731
        r = sym.canon(rets[0].value, lf)
        if r.same(sym.parse(want)):
            insts.append(R.ok("C16.R10", key, file, rets[0].lineno, idiom=f"{key.split('.')[-1]} = {want}"))
        elif r.symbols() <= {"offset", "length"}:
            insts.append(R.viol("C16.R10", key, file, rets[0].lineno,
                                f"{key} must be {want}; every writer, filter and pattern that asks for the end of a hold uses it",
                                construct=unparse(rets[0].value)))
        else:
            insts.append(R.undec("C16.R10", key, file, rets[0].lineno, "not in modelled arithmetic"))
    return insts


def _setter_shape_problem(f: ast.FunctionDef, stores, vparam, tgt_text, aliases, cast_ok=False):
    """A generated setter stores the value it is given, on every path: no early exit, every branch stores, and the stored
    value is the parameter itself (accepted conversion: `.df` of it).  A cast to the dtype the target has *now* is not the
    value given: the backing Series / column of an object built from whole numbers is int-typed, so a float time assigned
    later is truncated (F31: O2Jam long-note lengths)."""
    for n in ast.walk(f):
        if isinstance(n, ast.Return):
            return (f"the generated setter returns early on some values (line {n.lineno}): those assignments are silently dropped",
                    "early return")
        if isinstance(n, ast.If):
            for br, nm in ((n.body, "if"), (n.orelse, "else")):
                has = any(isinstance(x, ast.Assign) and x in stores for s_ in br for x in ast.walk(s_))
                if not has and (br or nm == "else"):
                    # an `if` that only prepares a local and falls through to one common store is fine when the store follows
                    after = [x for x in stores if x.lineno > n.end_lineno]
                    if not after:
                        return (f"the {nm}-branch at line {n.lineno} does not store the value", f"{nm}-branch without store")
    local = {}
    for n in ast.walk(f):
        if isinstance(n, ast.Assign) and isinstance(n.targets[0], ast.Name):
            local.setdefault(n.targets[0].id, []).append(n.value)
    for x in stores:
        v = x.value
        if isinstance(v, ast.Name) and v.id != vparam and len(local.get(v.id, [])) == 1:
            v = local[v.id][0]
        t = tgt_text(x)
        ok = isinstance(v, ast.Name) and v.id == vparam
        ok = ok or (isinstance(v, ast.Attribute) and isinstance(v.value, ast.Name) and v.value.id == vparam and v.attr == "df")
        if not ok and cast_ok and isinstance(v, ast.Call) and isinstance(v.func, ast.Attribute) and v.func.attr == "astype" and \
                isinstance(v.func.value, ast.Name) and v.func.value.id == vparam and len(v.args) == 1:
            a = unparse(v.args[0])
            ok = a.endswith(".dtype") and a[:-6].replace(" ", "") == unparse(x.targets[0]).replace(" ", "")
        if not ok:
            return (f"the generated setter stores '{unparse(v)[:80]}' into {t}, not the value it is given: the assigned values are "
                    f"converted on the way in", f"stores {unparse(v)[:80]}")
    return None


def rule_r11(ctx) -> List[R.Inst]:
    """the four accessor generators of Property.py: each generated property reads / writes its own key of the right store"""
    M = ctx.M
    mod = M.mods["reamber.base.Property"]
    file = mod.rel
    want = {"item_props": ("self.data[k_]", "self.data[k_]"), "list_props": ("self.df[k_]", "self.df[k_]"),
            "map_props": ("self.objs[k_]", "self.objs[k_].df"), "stack_props": ("self[k_]", "self[k_]")}
    insts = []
    for deco, (gwant, swant) in want.items():
        top = [n for n in mod.tree.body if isinstance(n, ast.FunctionDef) and n.name == deco]
        if len(top) != 1:
            insts.append(R.undec("C16.R11", f"{deco}", file, 0, "decorator not found"))
            continue
        loops = [n for n in ast.walk(top[0]) if isinstance(n, ast.For) and any(
            isinstance(x, ast.FunctionDef) and x.name == "getter" for x in n.body)]
        factory = None           # form B: for k in props: setattr(cl, k, _factory(k)) with the accessor pair built in the factory
        if len(loops) != 1:
            for n in ast.walk(top[0]):
                if isinstance(n, ast.For):
                    for x in n.body:
                        c = x.value if isinstance(x, ast.Expr) else None
                        if isinstance(c, ast.Call) and unparse(c.func) == "setattr" and len(c.args) == 3 and isinstance(c.args[2], ast.Call) and \
                                isinstance(c.args[2].func, ast.Name):
                            fdef = [m for m in mod.tree.body if isinstance(m, ast.FunctionDef) and m.name == c.args[2].func.id]
                            if len(fdef) == 1 and any(isinstance(y, ast.FunctionDef) and y.name == "getter" for y in fdef[0].body):
                                factory = (n, c, fdef[0])
            if factory is None:
                insts.append(R.undec("C16.R11", f"{deco}", file, top[0].lineno, "per-key loop with getter/setter not found"))
                continue
        lp = loops[0] if factory is None else factory[0]
        kvar = [x.id for x in ast.walk(lp.target) if isinstance(x, ast.Name)][0]
        fns = {x.name: x for x in lp.body if isinstance(x, ast.FunctionDef)}
        if factory is not None:
            # the accessor pair specialised for this decorator's call of the factory (Model._synthesise_accessors): the key is
            # the defaulted parameter k_ again, constant factory arguments are folded in
            for nm_ in ("getter", "setter"):
                qs_ = f"reamber.base.Property.{deco}.<locals>.gen_props.<locals>.{nm_}"
                if qs_ in M.funcs:
                    fns[nm_] = M.funcs[qs_].node
        # form B: the key is the factory parameter that receives the loop variable — bound per call, never late
        fparam = None
        if factory is not None:
            fps = [a.arg for a in factory[2].args.args]
            for i_, a_ in enumerate(factory[1].args[2].args):
                if isinstance(a_, ast.Name) and a_.id == kvar and i_ < len(fps):
                    fparam = fps[i_]
            if fparam is None:
                insts.append(R.viol("C16.R11", f"{deco}.register", file, lp.lineno,
                                    f"the accessor factory is not called with the key '{kvar}'", construct=unparse(factory[1])))
                continue
        for nm in ("getter", "setter"):
            f = fns.get(nm)
            key = f"{deco}.{nm}"
            if f is None:
                insts.append(R.viol("C16.R11", key, file, lp.lineno, f"no {nm} is generated", construct=f"{deco} lacks {nm}"))
                continue
            # the key must be bound per iteration (default argument), not captured late
            args = f.args.args
            dflt = dict(zip([a.arg for a in args][::-1], f.args.defaults[::-1]))
            bound = [a for a, d in dflt.items() if isinstance(d, ast.Name) and d.id == kvar]
            late = any(isinstance(x, ast.Name) and x.id == kvar for b in f.body for x in ast.walk(b))
            if factory is not None and not bound:
                bound, late = [fparam], False
            if not bound or late:
                insts.append(R.viol("C16.R11", key, file, f.lineno,
                                    f"the generated {nm} uses the loop variable '{kvar}' itself instead of a per-iteration default "
                                    f"argument: closures bind late, so every generated property would address the LAST key",
                                    construct=f"{deco}.{nm} late-binds {kvar}"))
                continue
            kb = bound[0]
            if nm == "getter":
                rets = [x for x in ast.walk(f) if isinstance(x, ast.Return) and x.value is not None]
                got = unparse(rets[0].value).replace(kb, "k_") if len(rets) == 1 else None
                if got is not None and got.startswith(gwant):
                    insts.append(R.ok("C16.R11", key, file, f.lineno, idiom=f"return {got}"))
                else:
                    insts.append(R.viol("C16.R11", key, file, f.lineno,
                                        f"the generated getter returns '{got}', not '{gwant}' (the live column / list of its own key)",
                                        construct=f"{deco}.getter: {got}"))
            else:
                stores = [x for x in ast.walk(f) if isinstance(x, ast.Assign)]
                base_w = swant[:-3] if swant.endswith(".df") else swant
                # local aliases of the store (obj = self.objs[k_]) are resolved
                alias = {unparse(x.targets[0]): unparse(x.value) for x in stores
                         if isinstance(x.targets[0], ast.Name) and unparse(x.value).replace(kb, "k_").startswith(base_w)}
                real = [x for x in stores if not (isinstance(x.targets[0], ast.Name))]

                def tgt_text(x):
                    t = unparse(x.targets[0])
                    for a, v in alias.items():
                        if t == a or t.startswith(a + ".") or t.startswith(a + "["):
                            t = v + t[len(a):]
                    return t.replace(kb, "k_")
                tg = {tgt_text(x) for x in real}
                vparam = args[1].arg if len(args) > 1 else None
                prob = _setter_shape_problem(f, real, vparam, tgt_text, set(alias), cast_ok=False)
                other_loop = sorted({x.id for b in f.body for x in ast.walk(b) if isinstance(x, ast.Name) and
                                     isinstance(x.ctx, ast.Load)} & ({y.id for y in ast.walk(lp.target) if isinstance(y, ast.Name)} - {kvar}))
                if other_loop:
                    insts.append(R.viol("C16.R11", key, file, f.lineno,
                                        f"the generated setter reads the loop variable(s) {other_loop} of the generating loop: closures "
                                        f"bind late, so every generated setter sees the values of the LAST declared field",
                                        construct=f"{deco}.setter late-binds {other_loop}"))
                elif tg and all(t.startswith(base_w) for t in tg) and prob:
                    insts.append(R.viol("C16.R11", key, file, f.lineno, prob[0], construct=f"{deco}.setter: {prob[1]}"))
                elif tg and all(t.startswith(base_w) for t in tg):
                    insts.append(R.ok("C16.R11", key, file, f.lineno, idiom=f"{sorted(tg)[0]} = value"))
                else:
                    insts.append(R.viol("C16.R11", key, file, f.lineno,
                                        f"the generated setter stores into {sorted(tg)}, not '{swant}'", construct=f"{deco}.setter: {sorted(tg)}"))
        reg = [x for x in lp.body if isinstance(x, ast.Expr) and isinstance(x.value, ast.Call) and unparse(x.value.func) == "setattr"]
        ok_reg = len(reg) == 1 and len(reg[0].value.args) == 3 and unparse(reg[0].value.args[1]) == kvar and \
            unparse(reg[0].value.args[2]) == "property(getter, setter)"
        if factory is not None:
            frets = [x for x in factory[2].body if isinstance(x, ast.Return)]
            ok_reg = len(reg) == 1 and unparse(reg[0].value.args[1]) == kvar and len(frets) == 1 and frets[0].value is not None and \
                unparse(frets[0].value) == "property(getter, setter)"
        insts.append(R.ok("C16.R11", f"{deco}.register", file, lp.lineno, idiom=f"setattr(cl, {kvar}, property(getter, setter))") if ok_reg else
                     R.viol("C16.R11", f"{deco}.register", file, lp.lineno,
                            "the generated accessor pair is not registered under its own key as property(getter, setter)",
                            construct="; ".join(unparse(r) for r in reg) or "no setattr"))
    for i_ in insts:
        # a dependent property inherits a getter / registration instance when it reaches a class built by that decorator,
        # a setter instance only when one of its functions assigns through such a setter (deps._setter_uses)
        d_ = i_.key.split(".")[0]
        i_.reach = (f"reamber.base.Property.{d_}#setter",) if i_.key.endswith(".setter") else (f"reamber.base.Property.{d_}",)
    return insts


def rule_r13(ctx) -> List[R.Inst]:
    """a declared default that is a mutable object (Quaver `keysounds = ["object", []]`) must be copied for every cell it fills:
    `_default()` (one row), `empty(n)` (the row repeated) and the `from_dict` fill otherwise place ONE Python object — the
    class-level default itself — into every row of every list"""
    M = ctx.M
    rid = "C16.R13"
    mutable = []
    for ic in sorted(c for c in M.classes if CTL not in c and M.class_kind(c) == "item"):
        for f, (dt, dflt) in M.item_fields(ic).items():
            if isinstance(dflt, (list, dict, set)):
                mutable.append(f"{ic.split('.')[-1]}.{f}")
    insts = []
    if not mutable:
        return [R.ok(rid, "no-mutable-default", "", 0, idiom="no declared default is a mutable object")]
    what = f"declared mutable defaults: {sorted(set(mutable))[:4]}"

    def copies_per_element(e) -> bool:
        """[copy(x) for ...] / [deepcopy(d) for _ in range(n)] / a call of copy/deepcopy/list/dict on the element — and the list of
        copies is not then REPEATED (`[copy(x) for x in one] * n` holds the same n-times-referenced objects again)"""
        multiplied = {id(x) for m in ast.walk(e) if isinstance(m, ast.BinOp) and isinstance(m.op, ast.Mult) for x in (m.left, m.right)}
        for n in ast.walk(e):
            if isinstance(n, (ast.ListComp, ast.GeneratorExp)) and any(isinstance(g.iter, ast.Subscript) and isinstance(g.iter.slice, ast.Slice) and
                                                                       (g.iter.slice.lower is not None or g.iter.slice.upper is not None) for g in n.generators):
                continue      # copies of a PART of the rows ([copy(v) for v in column[1:]]): the rest get no copy (or no value at all)
            if isinstance(n, (ast.ListComp, ast.GeneratorExp)) and id(n) not in multiplied and any(
                    isinstance(x, ast.Call) and call_name(x) in ("deepcopy", "copy", "list", "dict") for x in ast.walk(n.elt)):
                return True
        return False
    # (a) list_props._default: Series([<default>], dtype=...)
    mod = M.mods["reamber.base.Property"]
    file = mod.rel
    dfn = [n for n in ast.walk(mod.tree) if isinstance(n, ast.FunctionDef) and n.name == "_default"]
    ok_a = False
    node_a = dfn[0] if dfn else None
    for d_ in dfn:
        for n in ast.walk(d_):
            if isinstance(n, ast.Call) and call_name(n) == "Series" and n.args and isinstance(n.args[0], ast.List) and n.args[0].elts:
                node_a = n
                el = n.args[0].elts[0]
                ok_a = isinstance(el, ast.Call) and call_name(el) in ("deepcopy", "copy", "list", "dict")
    insts.append(R.ok(rid, "_default", file, getattr(node_a, "lineno", 0), idiom="the default is copied into the one-row frame") if ok_a else
                 R.viol(rid, "_default", file, getattr(node_a, "lineno", 0),
                        f"list_props._default puts the declared default object itself into the frame ({what}): every list built from "
                        f"_default() — empty lists, converter buffers — holds the class-level default, so editing one cell edits the default "
                        f"of every later list", construct="_default: Series([default]) without a copy"))
    # (b) TimedList.empty: rows repeated -> object columns rebuilt with per-row copies
    fn = M.fn(TL + ".empty")
    file, line = fn_loc(M, TL + ".empty")
    rep = any(isinstance(n, ast.Call) and call_name(n) == "repeat" for n in ast.walk(fn.node)) or \
        any(isinstance(n, ast.BinOp) and isinstance(n.op, ast.Mult) and any(isinstance(x, (ast.List, ast.ListComp)) for x in (n.left, n.right))
            for n in ast.walk(fn.node))       # (a list times n repeats references as well)
    ok_b = any(isinstance(n, ast.Assign) and isinstance(n.targets[0], ast.Subscript) and copies_per_element(n.value) for n in ast.walk(fn.node)) or \
        any(isinstance(n, ast.DictComp) and copies_per_element(n.value) and
            any(isinstance(x, ast.Call) and call_name(x) == "repeat" for x in ast.walk(n.value)) for n in ast.walk(fn.node))   # column-wise: {name: Series([copy(v) for v in one.repeat(n)])}
    if not ok_b:
        # the copy goes through a local: column = Series([deepcopy(v) for v in column]); columns[name] = column<...>
        for n in ast.walk(fn.node):
            if isinstance(n, ast.Assign) and isinstance(n.targets[0], ast.Name) and copies_per_element(n.value):
                v_ = n.targets[0].id
                ok_b = ok_b or any(isinstance(m, ast.Assign) and isinstance(m.targets[0], ast.Subscript) and
                                   any(isinstance(x, ast.Name) and x.id == v_ for x in ast.walk(m.value)) for m in ast.walk(fn.node))
    # a guard that selects the columns to copy by dtype must select the object columns
    bad_guard = [t for t in ast.walk(fn.node) if isinstance(t, ast.Compare) and "dtype" in unparse(t.left) and len(t.ops) == 1 and
                 unparse(t.comparators[0]) in ("object", "'object'", "'O'", "np.object_") and not isinstance(t.ops[0], (ast.Eq, ast.Is))]
    if ok_b and rep and bad_guard:
        insts.append(R.viol(rid, "empty", file, bad_guard[0].lineno,
                            f"the per-row copy is applied to the columns that are NOT object columns ({what}): the object cells stay shared",
                            construct=unparse(bad_guard[0])))
        ok_b = None
    if ok_b is not None:
        insts.append(R.ok(rid, "empty", file, line, idiom="object cells are copied per row after the repeat") if (ok_b or not rep) else
                     R.viol(rid, "empty", file, line,
                            f"empty(n) repeats the single default row: all n cells of an object column are the same Python object ({what}); "
                            f"giving one note a key sound gives it to all of them", construct="empty: index.repeat(rows) without per-row copies"))
    # (b') rows repeated through `.loc[index.repeat(n)]` all carry the label of the one default row: the labels are renumbered
    # (reset_index(drop=True) / ignore_index) before anything is stored by label into the frame and before it becomes the list
    loc_rep = [n for n in ast.walk(fn.node) if isinstance(n, ast.Subscript) and isinstance(n.value, ast.Attribute) and n.value.attr == "loc" and
               any(isinstance(x, ast.Call) and call_name(x) == "repeat" and "index" in unparse(x.func) for x in ast.walk(n.slice))]
    if loc_rep:
        renum = any(isinstance(x, ast.Call) and call_name(x) == "reset_index" and
                    any(k.arg == "drop" and isinstance(k.value, ast.Constant) and k.value.value is True for k in x.keywords) for x in ast.walk(fn.node)) or \
            any(isinstance(k, ast.keyword) and k.arg == "ignore_index" and isinstance(k.value, ast.Constant) and k.value.value is True for k in ast.walk(fn.node))
        insts.append(R.ok(rid, "empty:labels", file, loc_rep[0].lineno, idiom="repeated rows renumbered 0..n-1 (reset_index(drop=True))") if renum else
                     R.viol(rid, "empty:labels", file, loc_rep[0].lineno,
                            f"'{unparse(loc_rep[0])[:60]}' repeats the one default row WITH its label: all n rows of empty(n) are labelled 0, so a "
                            f"column stored into the frame as a Series (the per-row copies, a converter's label-aligned store, the stacker's "
                            f".loc selection) lands on every row at once — n rows that cannot be told apart by label",
                            construct="empty: index.repeat(rows) without renumbering the labels"))
    # (c) from_dict fill
    fn = M.nfn(TL + ".from_dict", subst=True)      # a list of copies named before it is stored is put back into the store
    file, line = fn_loc(M, TL + ".from_dict")
    # the loop variable that carries the declared default: the last name of `for name, (type, default) in <…>._props.items()`
    dnames = {"default"}
    for n in ast.walk(fn.node):
        if isinstance(n, ast.For) and "_props" in unparse(n.iter) and isinstance(n.target, ast.Tuple):
            nm_ = [x.id for x in ast.walk(n.target) if isinstance(x, ast.Name)]
            if nm_:
                dnames = {nm_[-1]}
    fills = [n for n in ast.walk(fn.node) if isinstance(n, ast.Assign) and isinstance(n.targets[0], ast.Subscript) and
             any(isinstance(x, ast.Name) and x.id in dnames for x in ast.walk(n.value))]
    if not fills:
        # column-wise fill: {name: <column built from the default> for name, (type, default) in <…>._props.items() if …}
        for n in ast.walk(fn.node):
            if isinstance(n, ast.DictComp) and len(n.generators) == 1 and "_props" in unparse(n.generators[0].iter):
                tn = [x.id for x in ast.walk(n.generators[0].target) if isinstance(x, ast.Name)]
                if tn and any(isinstance(x, ast.Name) and x.id == tn[-1] for x in ast.walk(n.value)):
                    fake = ast.Assign(targets=[ast.Subscript(value=ast.Name(id="df", ctx=ast.Load()), slice=n.key, ctx=ast.Store())], value=n.value)
                    ast.copy_location(fake, n)
                    fills.append(fake)
    # a cast inside the fill loop applies to the filled column only: `df = df.astype(t)` re-types EVERY column to the dtype of the one
    # defaulted field (float offsets of a list whose defaulted field is an int are truncated)
    wide = [n for n in ast.walk(fn.node) if isinstance(n, ast.Assign) and len(n.targets) == 1 and isinstance(n.targets[0], ast.Name) and
            isinstance(n.value, ast.Call) and call_name(n.value) == "astype" and isinstance(n.value.func.value, ast.Name) and
            n.value.func.value.id == n.targets[0].id and n.value.args and not isinstance(n.value.args[0], (ast.Dict, ast.Call)) and
            any(isinstance(l_, ast.For) and any(x is n for x in ast.walk(l_)) for l_ in ast.walk(fn.node))]
    if wide:
        insts.append(R.viol(rid, "from_dict:cast-scope", file, wide[0].lineno,
                            f"'{unparse(wide[0])}' inside the loop over the declared fields casts the WHOLE frame to the dtype of the field "
                            f"being defaulted: every other column (float offsets, lengths) is truncated / re-typed with it",
                            construct=f"from_dict: {unparse(wide[0])}"))
    # a filled column that is a Series is aligned on row labels when it is stored: built without `index=<the frame's index>` it is
    # labelled 0..n-1, and a frame made from the caller's Series (a filtered / sorted list's columns) has other labels
    ser_calls = [c_ for f in fills for c_ in ast.walk(f.value) if isinstance(c_, ast.Call) and call_name(c_) == "Series" and
                 isinstance(c_.func, ast.Attribute) and c_.args]
    if ser_calls and all(any(k.arg == "index" and ".index" in unparse(k.value) for k in c_.keywords) for c_ in ser_calls):
        insts.append(R.ok(rid, "from_dict:fill-alignment", file, ser_calls[0].lineno, idiom="the filled Series carries the frame's own index"))
    for f in fills:
        for c_ in ast.walk(f.value):
            if isinstance(c_, ast.Call) and call_name(c_) == "Series" and isinstance(c_.func, ast.Attribute) and c_.args and \
                    not any(k.arg == "index" and ".index" in unparse(k.value) for k in c_.keywords):
                insts.append(R.viol(rid, "from_dict:fill-alignment", file, c_.lineno,
                                    f"the defaults are stored as '{unparse(c_)[:70]}', a Series labelled 0..n-1: the store aligns it on row "
                                    f"labels, so for a frame built from columns with other labels (the columns of a filtered or sorted list) "
                                    f"the filled field is NaN / lands on other rows", construct=f"from_dict: {unparse(c_)[:80]} without index="))
                break
    if not fills:
        insts.append(R.undec(rid, "from_dict", file, line, "default fill not found"))
    else:
        ok_c = all(copies_per_element(f.value) for f in fills)
        insts.append(R.ok(rid, "from_dict", file, fills[0].lineno, idiom="one copy of the default per filled row") if ok_c else
                     R.viol(rid, "from_dict", file, fills[0].lineno,
                            f"from_dict fills a missing field with '{unparse(fills[0].value)[:60]}': the same object in every row ({what})",
                            construct=f"from_dict: {unparse(fills[0].value)[:80]}"))
    return insts


def rule_r14(ctx) -> List[R.Inst]:
    """conformance of the model's own summary: `Model._merge_props` expands the class decorators of Property.py as "the props of
    the class, then those of every ancestor in a depth-first, left-to-right walk of __bases__, a later one overriding" — every rule
    about declared fields rests on it.  This rule reads the walk in the decorators' code: a recursive closure (`for b in
    c.__bases__: [take b's props]; walk(b)`) or an explicit stack (`pending = list(reversed(c.__bases__)); while pending: b =
    pending.pop(); [take]; pending.extend(reversed(b.__bases__))`).  An early exit, a conditional descent, or pushes that are not
    reversed make the walk drop ancestors (an empty list then lacks declared columns: KeyError on the stacker) or visit siblings
    right-to-left (column order and override winner change)."""
    M = ctx.M
    rid = "C16.R14"
    mod = M.mods["reamber.base.Property"]
    file = mod.rel
    insts: List[R.Inst] = []
    walkers = []       # (owner name, FunctionDef or block owner, kind)
    for fn in ast.walk(mod.tree):
        if not isinstance(fn, ast.FunctionDef):
            continue
        loops = [n for n in walk_no_nested(fn) if isinstance(n, (ast.For, ast.While))]
        for lp in loops:
            txt = unparse(lp)
            if "__bases__" in txt and "hasattr(" in txt and ("append(" in txt or ".update(" in txt or ".extend(" in txt):
                walkers.append((fn, lp))
    if not walkers:
        return [R.undec(rid, "ancestor-walk", file, 0, "no walk over __bases__ that gathers props was found in Property.py")]
    # every decorator that merges inherited props (it stores the merged dict with setattr(cl, prop_name, ..)) is served by one of the
    # walks found: in its own body, or in a module-level helper it calls
    helpers = {f.name for f, _ in walkers}
    for outer in ast.walk(mod.tree):       # a walk in a closure of a helper serves whoever calls the helper
        if isinstance(outer, ast.FunctionDef) and any(any(y is f for y in ast.walk(outer)) for f, _ in walkers):
            helpers.add(outer.name)
    for dec in [f for f in ast.walk(mod.tree) if isinstance(f, ast.FunctionDef) and f.name == "gen_props"]:
        merges = any(isinstance(x, ast.Call) and call_name(x) == "setattr" and len(x.args) == 3 and unparse(x.args[1]) == "prop_name" for x in ast.walk(dec))
        mentions_bases = "__bases__" in unparse(dec) or any(isinstance(x, ast.Call) and isinstance(x.func, ast.Name) and x.func.id in helpers for x in ast.walk(dec))
        if merges and not (any(f is dec or any(y is f for y in ast.walk(dec)) for f, _ in walkers) or
                           any(isinstance(x, ast.Call) and isinstance(x.func, ast.Name) and x.func.id in helpers for x in ast.walk(dec))):
            insts.append(R.undec(rid, f"ancestor-walk:{dec.name}@{dec.lineno}", file, dec.lineno,
                                 "this decorator merges inherited props, but its walk over __bases__ is not of a recognised form"))
    for fn, lp in walkers:
        key = f"ancestor-walk:{fn.name}@{lp.lineno}"
        probs = []
        exits = [x for x in ast.walk(lp) if isinstance(x, (ast.Break, ast.Return)) or (isinstance(x, ast.Continue))]
        if exits:
            probs.append(f"the walk leaves its loop early ('{type(exits[0]).__name__.lower()}' at line {exits[0].lineno}): the remaining ancestors are not visited")
        if isinstance(lp, ast.For):
            # recursive form
            it = unparse(lp.iter)
            if not it.endswith(".__bases__"):
                probs.append(f"the bases are visited as '{it}', not left to right as declared")
            rec = [x for x in lp.body if isinstance(x, ast.Expr) and isinstance(x.value, ast.Call) and isinstance(x.value.func, ast.Name) and
                   x.value.func.id == fn.name and len(x.value.args) == 1 and isinstance(lp.target, ast.Name) and unparse(x.value.args[0]) == lp.target.id]
            if not rec and isinstance(lp.target, ast.Name):
                # the descent as an argument of an unconditional statement of the loop body: found.extend(walk(b, ..)) / found += walk(b, ..)
                rec = [x for x in lp.body if isinstance(x, (ast.Expr, ast.AugAssign, ast.Assign)) and any(
                    isinstance(c, ast.Call) and isinstance(c.func, ast.Name) and c.func.id == fn.name and c.args and unparse(c.args[0]) == lp.target.id
                    for c in ast.walk(x))]
            if not rec:
                nested_rec = [x for x in ast.walk(lp) if isinstance(x, ast.Call) and isinstance(x.func, ast.Name) and x.func.id == fn.name]
                probs.append("the descent into a base is conditional (under a test): ancestors above a base without props of its own are skipped"
                             if nested_rec else "the walk does not descend into the bases of a base")
            takes = [i for i, x in enumerate(lp.body) if "append(" in unparse(x) or ".update(" in unparse(x)]
            if rec and takes and lp.body.index(rec[0]) < takes[0]:
                probs.append("a base's ancestors are gathered before the base itself (post-order): the override winner changes")
        else:
            # explicit stack
            test = unparse(lp.test)
            pops = [x for x in ast.walk(lp) if isinstance(x, ast.Call) and call_name(x) == "pop" and isinstance(x.func.value, ast.Name) and x.func.value.id == test]
            exts = [x for x in ast.walk(lp) if isinstance(x, ast.Call) and call_name(x) in ("extend",) and isinstance(x.func.value, ast.Name) and x.func.value.id == test]
            inits = [x.value for x in walk_no_nested(fn) if isinstance(x, ast.Assign) and len(x.targets) == 1 and isinstance(x.targets[0], ast.Name) and x.targets[0].id == test]
            if len(pops) != 1 or len(exts) != 1 or len(inits) != 1:
                insts.append(R.undec(rid, key, file, lp.lineno, "explicit-stack walk not of the form pop / take / extend"))
                continue
            pop_end = not pops[0].args or unparse(pops[0].args[0]) == "-1"

            def rev(e):
                while isinstance(e, ast.Call) and call_name(e) in ("list", "tuple") and len(e.args) == 1:
                    e = e.args[0]
                return (isinstance(e, ast.Call) and call_name(e) == "reversed") or \
                    (isinstance(e, ast.Subscript) and unparse(e.slice) == "::-1")
            r_init, r_ext = rev(inits[0]), rev(exts[0].args[0]) if exts[0].args else False
            if not pop_end:
                probs.append("the stack is popped from the front: the walk is breadth-first, the summary (and the recursive original) is depth-first")
            else:
                if not r_init:
                    probs.append("the direct bases are pushed un-reversed and popped from the end: they are visited right to left")
                if not r_ext:
                    probs.append("a base's bases are pushed un-reversed and popped from the end: siblings are visited right to left")
            if not any(x is exts[0] for st_ in lp.body for x in ([st_.value] if isinstance(st_, ast.Expr) else [])):
                probs.append("the descent into a base is conditional: ancestors above a base without props of its own are skipped")
        if probs:
            insts.append(R.viol(rid, key, file, lp.lineno, "; ".join(probs), construct=f"{fn.name}: " + "; ".join(probs)[:200]))
        else:
            insts.append(R.ok(rid, key, file, lp.lineno, idiom="complete depth-first, left-to-right walk of __bases__ (what Model._merge_props assumes)"))
    # whoever uses a generated accessor, a list's default frame or the stacker's names depends on the merged props
    for i_ in insts:
        i_.reach = tuple(f"reamber.base.Property.{d}" for d in ("item_props", "list_props", "map_props", "stack_props"))
    return insts


def rule_r12(ctx) -> List[R.Inst]:
    """re-definitions below the classes the list rules decide (sa/props/overrides.py): the `df` field is a plain field on
    every list class, and a method of a reamber.base list class re-defined in a subclass either forwards to it or is itself
    the anchor of a rule"""
    from .overrides import list_override_insts
    return list_override_insts(ctx, "C16.R12")


SPECS = [
    RuleSpec("C16.R1", rule_r1, 3, "A7", "int index is positional; other indices re-wrap df[...] in the receiver's class"),
    RuleSpec("C16.R2", rule_r2, 2, "A7", "__len__ = rows; __iter__ yields one item per row in row order"),
    RuleSpec("C16.R3", rule_r3, 8, "A8", "first/last = min/max of offset (tail for holds); overrides keep guard and normalisation"),
    RuleSpec("C16.R4", rule_r4, 3, "A7", "sorted: key offset, ascending = not reverse, stable"),
    RuleSpec("C16.R5", rule_r5, 1, "A7", "append: concat [self, val], fresh index, sorted iff sort on every exit"),
    RuleSpec("C16.R6", rule_r6, 14, "A7", "filter comparator truth tables for every flag combination"),
    RuleSpec("C16.R7", rule_r7, 28, "A2", "item constructor kwargs = declared fields"),
    RuleSpec("C16.R8", rule_r8, 37, "A2", "default / empty / from_dict frames = declared fields"),
    RuleSpec("C16.R14", rule_r14, 1, "M0", "the decorators' ancestor walk is the complete depth-first, left-to-right walk the model's expansion assumes"),
    RuleSpec("C16.R9", rule_r9, 2, "M0", "row -> item filter keeps exactly the declared fields"),
    RuleSpec("C16.R10", rule_r10, 3, "A7", "hold ends: head_offset = offset, tail_offset = offset + length"),
    RuleSpec("C16.R12", rule_r12, 9, "M0", "list operations re-defined in subclasses forward to the decided definition; `df` is a plain field"),
    RuleSpec("C16.R13", rule_r13, 3, "A3", "a mutable declared default is copied for every cell it fills (_default, empty, from_dict); repeated rows are renumbered"),
    RuleSpec("C16.R11", rule_r11, 12, "M0", "Property.py generators: each accessor reads/writes its own key (bound per iteration) of the right store"),
]

META = dict(
    explanation=(
        "Structural sequence semantics of TimedList/HoldList: positional int indexing, row-order iteration, min/max "
        "ends with the empty guard preserved by every override, sort key/direction/stability, concat order, the "
        "comparator truth table of after/before (every combination of inclusive/head/tail flags, by partial "
        "evaluation over the flags) and the between plumbing, constructor kwargs against declared fields for every "
        "item class, and declared-field frames for default/empty/from_dict. Hold ends (R10), the four accessor generators of Property.py (R11: own key bound per iteration, no other loop variable read late, no early exit, every branch stores, the stored value is the parameter itself), item constructors pass every field on unchanged (R7), re-definitions of list operations in subclasses forward to the decided definition and `df` stays a plain field on every list class (R12), move_start_to / move_end_to shift by first_offset() / last_offset() (R3). Every exit of append() hands back a list that passed 'sorted() if sort' (R5); the rows repeated by empty(n) are renumbered (R13)."),
    not_decided="-",
)
