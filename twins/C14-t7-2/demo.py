"""Demo for refactoring 2: reamber/algorithms/generate/full_ln.py

Runs full_ln on generated charts of every game (base, osu, quaver, sm, bms,
o2jam) and on charts from the repository, with many gap / threshold values,
dumps result and input-afterwards (values, dtypes, columns, row labels),
warnings and exception types, and prints one sha256 digest.
"""
import hashlib
import random
import sys
import warnings
from pathlib import Path

import numpy as np
import pandas as pd

from reamber.algorithms.generate import full_ln
from reamber.base.Map import Map
from reamber.bms import BMSMap
from reamber.o2jam import O2JMap, O2JMapSet
from reamber.osu import OsuMap
from reamber.quaver import QuaMap
from reamber.sm import SMMap, SMMapSet

ROOT = Path.cwd()  # run from inside the worktree
OUT: list = []


def emit(*a):
    OUT.append(" ".join(str(x) for x in a))


def cell(v):
    return f"{type(v).__name__}:{v!r}"


def dump_df(tag, df: pd.DataFrame):
    emit(tag, "shape", df.shape)
    emit(tag, "columns", list(df.columns))
    emit(tag, "dtypes", [str(t) for t in df.dtypes])
    emit(tag, "index", type(df.index).__name__, [cell(i) for i in df.index])
    for c in df.columns:
        emit(tag, "col", c, [cell(v) for v in df[c].tolist()])


def dump_map(tag, m):
    emit(tag, "type", type(m).__name__)
    for k, v in m.objs.items():
        emit(tag, "obj", k, type(v).__name__)
        dump_df(f"{tag}.{k}", v.df)


GRIDS = [
    [0, 100, 200, 249, 250, 251, 500, 1000],
    [0, 0, 0, 250, 250, 1000],
    [-1000.5, -250.0, -0.0, 0.0, 0.25, 1e7],
    list(range(0, 4000, 125)),
    [10, 10 + 1e-9, 10 + 250, 10 + 250 + 1e-9],
]


def relabel(rng, tl, mode):
    df = tl.df
    if len(df) == 0 or mode == 0:
        return tl
    if mode == 1:
        df = df.sample(frac=1.0, random_state=rng.randrange(10**6))
    elif mode == 2:
        df = df.set_axis([i * 2 + 5 for i in range(len(df))], axis=0)
    elif mode == 3:
        df = df.sort_values("offset", ascending=False, kind="stable")
    return type(tl)(df)


def fill(rng, m, n_hits, n_holds, grid, keys, mode):
    hits = [
        dict(offset=float(rng.choice(grid)), column=rng.randrange(keys))
        for _ in range(n_hits)
    ]
    holds = [
        dict(
            offset=float(rng.choice(grid)),
            column=rng.randrange(keys),
            length=float(rng.choice([0, 1, 99, 100, 101, 250, 1e4, -50])),
        )
        for _ in range(n_holds)
    ]
    m.hits = relabel(rng, type(m.hits).from_dict(hits), mode)
    m.holds = relabel(rng, type(m.holds).from_dict(holds), mode)
    m.bpms = type(m.bpms).from_dict([dict(offset=0.0, bpm=150.0)])
    return m


def run_case(tag, m, *args, **kwargs):
    emit("=== CASE", tag, args, kwargs)
    with warnings.catch_warnings(record=True) as ws:
        warnings.simplefilter("always")
        try:
            res = full_ln(m, *args, **kwargs)
        except Exception as e:  # noqa
            emit("EXC", type(e).__name__)
            res = None
    emit("WARN", sorted({w.category.__name__ for w in ws}), len(ws))
    if res is not None:
        emit("res is m", res is m)
        dump_map("res", res)
        # change the result afterwards: the input must not follow
        with warnings.catch_warnings(record=True) as ws2:
            warnings.simplefilter("always")
            try:
                res.stack().offset += 7
                if len(res.holds):
                    res.holds.length *= 2
                if len(res.hits):
                    res.hits.df.iloc[0, res.hits.df.columns.get_loc("column")] = 99
            except Exception as e:  # noqa
                emit("EXC-after", type(e).__name__)
        emit("WARN-after", sorted({w.category.__name__ for w in ws2}), len(ws2))
        dump_map("res-after", res)
    dump_map("in-after", m)
    return res


def main():
    rng = random.Random(140002)
    classes = [Map, OsuMap, QuaMap, SMMap, BMSMap, O2JMap]
    params = [
        (),
        (150, 100),
        (0, 0),
        (250, 0),
        (100.5, 149.5),
        (-50, 10),
        (150, -1e9),
        (1e9, 100),
        (np.float64(125.0), np.int64(125)),
        (float("nan"), 100),
        (150, float("nan")),
        (float("inf"), 100),
    ]
    n = 0
    # edge cases: empty chart, hits only, holds only, one note per column
    for M in classes:
        for n_hits, n_holds in ((0, 0), (1, 0), (0, 1), (4, 0), (0, 4), (1, 1)):
            m = fill(rng, M(), n_hits, n_holds, GRIDS[0], 4, 0)
            run_case(f"edge{n}:{M.__name__}", m)
            n += 1
    # every note in its own column (all gaps are NaN)
    m = Map()
    m.hits = type(m.hits).from_dict([dict(offset=float(i), column=i) for i in range(5)])
    m.holds = type(m.holds).from_dict(
        [dict(offset=float(i), column=i + 5, length=10.0) for i in range(3)]
    )
    run_case("own-columns", m, 10, 10)
    # random charts
    for i in range(60):
        M = classes[i % len(classes)]
        grid = GRIDS[i % len(GRIDS)]
        keys = rng.choice([1, 2, 4, 7, 10, 18])
        m = fill(
            rng, M(), rng.randrange(0, 16), rng.randrange(0, 10), grid, keys,
            rng.randrange(4),
        )
        p = params[i % len(params)]
        res = run_case(f"rand{i}:{M.__name__}", m, *p)
        if res is not None and i % 4 == 0:
            # in sequence: full_ln of a full_ln chart, keyword arguments
            run_case(f"rand{i}:again", res, gap=50, ln_as_hit_thres=20)
    # charts with extra lists (sm: rolls, mines, ... are note lists as well)
    sm = fill(rng, SMMap(), 8, 4, GRIDS[3], 4, 1)
    sm.rolls = type(sm.rolls).from_dict(
        [dict(offset=125.0, column=1, length=500.0), dict(offset=1000.0, column=3, length=5.0)]
    )
    sm.mines = type(sm.mines).from_dict([dict(offset=250.0, column=1)])
    run_case("sm-extra", sm, 100, 50)
    # unusual column types: integer offsets, a float column with a missing value
    from reamber.base.lists.notes.HitList import HitList
    from reamber.base.lists.notes.HoldList import HoldList

    m = Map()
    m.hits = HitList(
        pd.DataFrame({"column": [0, 0, 1, 1, 0], "offset": [0, 300, 10, 2**60, 2**60 + 512]})
    )
    run_case("int-offsets", m, 100, 100)
    m = Map()
    m.hits = HitList(
        pd.DataFrame(
            {"column": [0.0, np.nan, 1.0, np.nan, 0.0], "offset": [0.0, 50.0, 100.0, 400.0, 900.0]}
        )
    )
    m.holds = HoldList(
        pd.DataFrame({"length": [5.0, 700.0], "column": [1.0, np.nan], "offset": [600.0, 0.0]})
    )
    run_case("nan-column", m, 100, 100)
    m = Map()
    m.hits = HitList(
        pd.DataFrame({"column": [0, 0, 0], "offset": [np.nan, 100.0, np.inf]})
    )
    m.holds = HoldList(
        pd.DataFrame({"length": [np.nan, np.inf], "column": [0, 0], "offset": [-np.inf, 500.0]})
    )
    run_case("nan-inf-offsets", m, 100, 100)
    # charts of the repository (first part, to keep the dump small)
    maps = ROOT / "rsc/maps"
    files = [
        OsuMap.read_file(maps / "osu/Gravity.osu"),
        OsuMap.read_file(maps / "osu/LNDan14.osu"),
        QuaMap.read_file(maps / "qua/CarryMeAway.qua"),
        SMMapSet.read_file(maps / "sm/Escapes.sm")[0],
        BMSMap.read_file(maps / "bms/coldBreath.bme"),
        O2JMapSet.read_file(maps / "o2jam/o2ma178.ojn")[0],
    ]
    for j, m in enumerate(files):
        m.hits = m.hits[:120]
        m.holds = m.holds[:60]
        run_case(f"file{j}:{type(m).__name__}", m)
        run_case(f"file{j}:{type(m).__name__}:p", m, 80, 40)

    text = "\n".join(OUT)
    print("LINES", len(OUT), file=sys.stderr)
    print("DIGEST", hashlib.sha256(text.encode("utf8")).hexdigest())


if __name__ == "__main__":
    main()
